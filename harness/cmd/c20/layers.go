package main

import (
	"fmt"
	"math/big"
	"strings"

	"github.com/lianxiangcloud/linkchain/libs/common"
	"github.com/lianxiangcloud/linkchain/vm/evm"
)

// A layer is one explicitly bounded family of programs together with the entry configurations each of them is
// run under. Every (program, configuration) pair of every layer is executed; nothing is sampled.
type layer struct {
	name    string
	what    string // the bound, in words (goes into the evidence)
	n       int
	gen     func(i int) (name string, code []byte)
	configs func(i int) []config
	// layer F only: the child contract installed next to the program, and the child of the control run (same
	// parent, child = the bare failure) together with a key under which the control result may be cached
	aux     func(i int) []byte
	control func(i int) (key string, aux []byte)
}

// ---- entry configurations ----

var (
	gasLevels   = []uint64{0, 1, 2300, 50000, 10000000}
	valueLevels = []int64{0, 1, originBalance + 1}
	input36     = append([]byte{0x31, 0x3c, 0xe5, 0x67}, common.LeftPadBytes([]byte{0x01, 0x02, 0x03}, 32)...) // decimals() selector + one word
)

// fullMatrix: the designed 5 gas x 3 value x {Call, Create, StaticCall} matrix, plus the production entry
// (UTXOCall) and a token-carrying call at the two upper gas levels.
func fullMatrix() []config {
	var cs []config
	for _, e := range []entryKind{entCall, entCreate} {
		for _, g := range gasLevels {
			for _, v := range valueLevels {
				cs = append(cs, config{entry: e, gas: g, value: v})
			}
		}
	}
	for _, g := range gasLevels {
		cs = append(cs, config{entry: entStatic, gas: g, value: 0})
	}
	for _, g := range []uint64{50000, 10000000} {
		for _, v := range []int64{0, 1} {
			cs = append(cs, config{entry: entUTXOCall, gas: g, value: v})
		}
		for _, v := range []int64{0, 1, 11} { // the origin holds 10 units of the token
			cs = append(cs, config{entry: entTokenCall, gas: g, value: v})
		}
	}
	return cs
}

// reducedMatrix: used at the deepest sequence level only (4 configurations in the quick tier at depth 4,
// 3 in the thorough tier at depth 5).
func reducedMatrix(thorough bool) []config {
	cs := []config{
		{entry: entCall, gas: 1000000, value: 1},
		{entry: entCreate, gas: 1000000, value: 1},
		{entry: entTokenCall, gas: 50000, value: 1},
	}
	if !thorough {
		cs = append(cs, config{entry: entStatic, gas: 1000000, value: 0})
	}
	return cs
}

func sweepMatrix() []config {
	return []config{
		{entry: entCall, gas: 10000000, value: 1, input: input36},
		{entry: entCall, gas: 50000, value: 0},
		{entry: entCreate, gas: 10000000, value: 0},
		{entry: entStatic, gas: 10000000, value: 0, input: input36},
	}
}

func callMatrix() []config {
	return []config{
		{entry: entCall, gas: 10000000, value: 1},
		{entry: entCall, gas: 50000, value: 0},
		{entry: entUTXOCall, gas: 10000000, value: 1},
		{entry: entCreate, gas: 10000000, value: 1},
		{entry: entStatic, gas: 10000000, value: 0},
		{entry: entTokenCall, gas: 10000000, value: 1},
	}
}

func smallGasOnly(cs []config) []config {
	var out []config
	for _, c := range cs {
		if c.gas <= 50000 {
			out = append(out, c)
		}
	}
	return out
}

// ---- layer S: all instruction sequences over the 28-symbol alphabet ----

func seqAlphabet() []instr {
	o := func(name string, c evm.OpCode) instr { return instr{name, op(c)} }
	return []instr{
		{"PUSH1_00", push1(0x00)},
		{"PUSH1_01", push1(0x01)},
		{"PUSH1_20", push1(0x20)},
		{"PUSH1_ff", push1(0xff)},
		{"PUSH32(bare)", op(evm.PUSH32)}, // swallows what follows, or is truncated at the end of the code
		o("DUP1", evm.DUP1),
		o("SWAP1", evm.SWAP1),
		o("POP", evm.POP),
		o("ADD", evm.ADD),
		o("MSTORE", evm.MSTORE),
		o("MLOAD", evm.MLOAD),
		o("SSTORE", evm.SSTORE),
		o("SLOAD", evm.SLOAD),
		o("JUMP", evm.JUMP),
		o("JUMPI", evm.JUMPI),
		o("JUMPDEST", evm.JUMPDEST),
		o("RETURN", evm.RETURN),
		o("REVERT", evm.REVERT),
		o("INVALID", opINVALID),
		o("SELFDESTRUCT", evm.SELFDESTRUCT),
		o("LOG1", evm.LOG1),
		o("BALANCE", evm.BALANCE),
		o("ISSUE", evm.ISSUE),
		o("TRANSFERTOKEN", evm.TRANSFERTOKEN),
		{"CALL(self,v0,allgas)", callMacro(evm.CALL, nil, 0, gasAll)},
		{"CALL(reverter,v1,allgas)", callMacro(evm.CALL, &aReverter, 1, gasAll)},
		{"CREATE(child:sstore;invalid,v1)", createMacro(childFailInit, 1)},
		{"RETURNDATACOPY(mem0,off2^256-1,len1)", cat(push1(1), pushN(max256), push1(0), op(evm.RETURNDATACOPY))},
	}
}

func pow(b, e int) int {
	r := 1
	for i := 0; i < e; i++ {
		r *= b
	}
	return r
}

// seqLayer: all sequences of exactly `length` symbols (length 0 = the empty program).
func seqLayer(length int, cfgs []config, matrixName string) layer {
	sigma := seqAlphabet()
	n := pow(len(sigma), length)
	return layer{
		name: fmt.Sprintf("S%d", length),
		what: fmt.Sprintf("all %d^%d sequences of exactly %d symbols of the %d-symbol alphabet x %d configurations (%s)", len(sigma), length, length, len(sigma), len(cfgs), matrixName),
		n:    n,
		gen: func(i int) (string, []byte) {
			p := make(program, length)
			for k := length - 1; k >= 0; k-- {
				p[k] = sigma[i%len(sigma)]
				i /= len(sigma)
			}
			return p.String(), p.bytes()
		},
		configs: func(int) []config { return cfgs },
	}
}

// ---- layer B: all byte strings ----

func byteLayer(length int, cfgs []config) layer {
	return layer{
		name: fmt.Sprintf("B%d", length),
		what: fmt.Sprintf("all 256^%d byte strings of length %d as code x %d configurations", length, length, len(cfgs)),
		n:    pow(256, length),
		gen: func(i int) (string, []byte) {
			b := make([]byte, length)
			for k := length - 1; k >= 0; k-- {
				b[k] = byte(i)
				i >>= 8
			}
			return "bytes:" + hx(b), b
		},
		configs: func(int) []config { return cfgs },
	}
}

// ---- layer V: every opcode x every operand vector over boundary values ----

func pow2(n uint) []byte { return new(big.Int).Lsh(big.NewInt(1), n).Bytes() }
func pow2m1(n uint) []byte {
	return new(big.Int).Sub(new(big.Int).Lsh(big.NewInt(1), n), big.NewInt(1)).Bytes()
}

type operand struct {
	name string
	v    []byte // big-endian, empty = 0
}

var (
	vals10 = []operand{{"0", nil}, {"1", []byte{1}}, {"0x20", []byte{0x20}}, {"0xffff", []byte{0xff, 0xff}}, {"2^32", pow2(32)}, {"2^63", pow2(63)},
		{"2^64-1", pow2m1(64)}, {"2^64", pow2(64)}, {"2^255", pow2(255)}, {"2^256-1", max256}}
	vals6 = []operand{{"0", nil}, {"1", []byte{1}}, {"0x20", []byte{0x20}}, {"2^32", pow2(32)}, {"2^64-1", pow2m1(64)}, {"2^256-1", max256}}
	vals4 = []operand{{"0", nil}, {"1", []byte{1}}, {"0x20", []byte{0x20}}, {"2^256-1", max256}}
	vals3 = []operand{{"0", nil}, {"0x20", []byte{0x20}}, {"2^256-1", max256}}
	vals5 = []operand{{"0", nil}, {"1", []byte{1}}, {"0x20", []byte{0x20}}, {"2^64-1", pow2m1(64)}, {"2^256-1", max256}}
)

func pushOperand(o operand) []byte {
	if len(o.v) == 0 {
		return push1(0)
	}
	return pushN(o.v)
}

type sweepProg struct {
	name string
	code []byte
}

// sweepPrograms builds  [warm-up]  PUSH v_k .. PUSH v_1  OP  for every opcode byte and every operand vector.
// arity[b] is the number of stack items opcode b needs (measured on the real interpreter by the caller).
func sweepPrograms(arity [256]int, thorough bool) []sweepProg {
	var out []sweepProg
	warm := callMacro(evm.CALL, &aStorer, 0, gasAll) // leaves 32 bytes of return data and of memory, status on the stack
	for b := 0; b < 256; b++ {
		k := arity[b]
		opn := evm.OpCode(b).String()
		if strings.HasPrefix(opn, "Missing") {
			opn = fmt.Sprintf("0x%02x", b)
		}
		var vals []operand
		switch {
		case k <= 3:
			vals = vals10
		case k == 4:
			vals = vals6
		case k <= 7:
			vals = vals3
			if thorough {
				vals = vals4
				if k <= 6 {
					vals = vals5
				}
			}
		default:
			vals = nil // DUPn / SWAPn with many operands: one vector per value (all operands equal)
		}
		emit := func(ops []operand) {
			var names []string
			var code []byte
			for i := len(ops) - 1; i >= 0; i-- { // ops[0] ends on top of the stack
				code = append(code, pushOperand(ops[i])...)
			}
			for _, o := range ops {
				names = append(names, o.name)
			}
			code = append(code, byte(b))
			n := fmt.Sprintf("%s(%s)", opn, strings.Join(names, ","))
			out = append(out, sweepProg{n, code})
			out = append(out, sweepProg{"CALL(storer);" + n, cat(warm, code)})
		}
		if vals == nil {
			for _, v := range vals4 {
				ops := make([]operand, k)
				for i := range ops {
					ops[i] = v
				}
				emit(ops)
			}
			continue
		}
		idx := make([]int, k)
		for {
			ops := make([]operand, k)
			for i := range ops {
				ops[i] = vals[idx[i]]
			}
			emit(ops)
			i := 0
			for ; i < k; i++ {
				idx[i]++
				if idx[i] < len(vals) {
					break
				}
				idx[i] = 0
			}
			if i == k {
				break
			}
		}
	}
	return out
}

// ---- layer C: call structures ----

type callSym struct {
	name    string
	code    []byte
	spinner bool
}

func callSymbols(gasModes []int) []callSym {
	type tgt struct {
		name string
		a    *common.Address
	}
	targets := []tgt{{"self", nil}, {"reverter", &aReverter}, {"invalider", &aInvalid}, {"storer", &aStorer}, {"suicider", &aSuicider},
		{"issuelib", &aIssueLib}, {"issuer", &aIssuer}, {"spinner", &aSpinner}, {"creator", &aCreator}, {"tokuser", &aTokUser}, {"empty", &aEmpty},
		{"0x01", &aSmall01}, {"0x02", &aSmall02}, {"0x03", &aSmall03}, {"0x04", &aSmall04}, {"0x20", &aSmall20}, {"0xff", &aSmallFF}, {"origin", &aOrigin}}
	var out []callSym
	for _, t := range targets {
		for _, gm := range gasModes {
			for _, k := range []evm.OpCode{evm.CALL, evm.CALLCODE} {
				for _, v := range []byte{0, 1, 0xff} { // self holds 0x21
					out = append(out, callSym{fmt.Sprintf("%v(%s,v%d,gas=%s)", k, t.name, v, gasModeName[gm]), callMacro(k, t.a, v, gm), t.name == "spinner"})
				}
			}
			for _, k := range []evm.OpCode{evm.DELEGATECALL, evm.STATICCALL} {
				out = append(out, callSym{fmt.Sprintf("%v(%s,gas=%s)", k, t.name, gasModeName[gm]), callMacro(k, t.a, 0, gm), t.name == "spinner"})
			}
		}
	}
	return out
}

type callProg struct {
	name    string
	code    []byte
	spinner bool
}

func directTargets() []common.Address {
	return []common.Address{aReverter, aInvalid, aStorer, aSuicider, aIssueLib, aIssuer, aCreator, aTokUser, aEmpty, aSmall01, aSmall02, aSmall03, aSmall04, aSmall20, aSmallFF, aOrigin}
}

func directMatrix() []config {
	var cs []config
	for _, g := range gasLevels {
		for _, v := range valueLevels {
			cs = append(cs, config{entry: entCall, gas: g, value: v}, config{entry: entUTXOCall, gas: g, value: v})
		}
		for _, v := range []int64{0, 1, 11} {
			cs = append(cs, config{entry: entTokenCall, gas: g, value: v})
		}
		cs = append(cs, config{entry: entStatic, gas: g}, config{entry: entCall, gas: g, value: 1, input: input36})
	}
	return cs
}

func callPrograms(thorough bool) []callProg {
	pres := []instr{
		{"", nil},
		{"SSTORE(0:=2)", cat(push1(2), push1(0), op(evm.SSTORE))},
		{"CALL(storer)", callMacro(evm.CALL, &aStorer, 0, gasAll)},
		{"TRANSFERTOKEN(0x20,tkn,1)", cat(push1(0x20), pushAddr(aTkn), push1(1), op(evm.TRANSFERTOKEN))},
	}
	posts := []instr{
		{"", nil},
		{"REVERT(0,0x20)", cat(push1(0x20), push1(0), op(evm.REVERT))},
		{"INVALID", op(opINVALID)},
		{"SSTORE(1:=status)", cat(push1(1), op(evm.SSTORE))},
		{"RETURN(0,0x20)", cat(push1(0x20), push1(0), op(evm.RETURN))},
		{"SELFDESTRUCT(0xff)", cat(push1(0xff), op(evm.SELFDESTRUCT))},
		{"RETURNDATACOPY(0,0,0x20);RETURN(0,0x20)", cat(push1(0x20), push1(0), push1(0), op(evm.RETURNDATACOPY), push1(0x20), push1(0), op(evm.RETURN))},
	}
	var out []callProg
	join := func(parts ...string) string {
		var l []string
		for _, p := range parts {
			if p != "" {
				l = append(l, p)
			}
		}
		return strings.Join(l, " ; ")
	}
	for _, c := range callSymbols([]int{gasAll, gasZero, gasSmall}) {
		for _, pre := range pres {
			for _, post := range posts {
				out = append(out, callProg{join(pre.name, c.name, post.name), cat(pre.code, c.code, post.code), c.spinner})
			}
		}
	}
	// two calls in a row (all-gas macros only), optionally reverting at the end. The quick tier leaves out the
	// value-0xff and CALLCODE-v0 variants and the self target here (two self-calls per frame open ~14000 frames).
	two := callSymbols([]int{gasAll})
	if !thorough {
		var keep []callSym
		for _, c := range two {
			if strings.Contains(c.name, "(self,") || strings.Contains(c.name, ",v255,") || strings.HasPrefix(c.name, "CALLCODE") && strings.Contains(c.name, ",v0,") {
				continue
			}
			keep = append(keep, c)
		}
		two = keep
	}
	for _, c1 := range two {
		for _, c2 := range two {
			for _, post := range posts[:2] {
				out = append(out, callProg{join(c1.name, c2.name, post.name), cat(c1.code, c2.code, post.code), c1.spinner || c2.spinner})
			}
		}
	}
	return out
}

// ---- layer D: deep recursion (must reach the 1024 call-depth limit) ----

func depthPrograms() []callProg {
	// init code that copies itself to memory and CREATEs with it: recursion through CREATE
	selfCreate := cat(op(evm.CODESIZE), push1(0), push1(0), op(evm.CODECOPY), op(evm.CODESIZE), push1(0), push1(0), op(evm.CREATE))
	selfCreate2 := cat(op(evm.CODESIZE), push1(0), push1(0), op(evm.CODECOPY), push1(0), op(evm.CODESIZE), push1(0), push1(0), op(evm.CREATE2))
	var out []callProg
	tails := []instr{{"", nil}, {"INVALID", op(opINVALID)}, {"SSTORE(1:=status)", cat(push1(1), op(evm.SSTORE))}, {"REVERT(0,0)", cat(push1(0), push1(0), op(evm.REVERT))}}
	for _, t := range tails {
		for _, k := range []evm.OpCode{evm.CALL, evm.CALLCODE, evm.DELEGATECALL, evm.STATICCALL} {
			out = append(out, callProg{fmt.Sprintf("%v(self,allgas) ; %s", k, t.name), cat(callMacro(k, nil, 0, gasAll), t.code), false})
		}
		out = append(out, callProg{"CREATE(own code) ; " + t.name, cat(selfCreate, t.code), false})
		out = append(out, callProg{"CREATE2(own code) ; " + t.name, cat(selfCreate2, t.code), false})
		// grow the interpreter stack to its limit, then recurse
		out = append(out, callProg{"JUMPDEST PUSH1_00 PUSH1_00 JUMP (stack limit) ; " + t.name, cat(op(evm.JUMPDEST), push1(0), push1(0), op(evm.JUMP), t.code), false})
	}
	return out
}

func depthMatrix() []config {
	var cs []config
	for _, g := range []uint64{10000000, 1 << 40, 1<<63 - 1, 1<<64 - 1} {
		cs = append(cs, config{entry: entCall, gas: g, value: 0}, config{entry: entCreate, gas: g, value: 0}, config{entry: entStatic, gas: g, value: 0})
	}
	return cs
}

// ---- layer K: several creates in one call tree ----
//
// CREATE and CREATE2 x a small family of init codes (no jump, jump to a low target, jump to a target beyond
// position 40, jump into PUSH data that holds a JUMPDEST byte, jump to a valid JUMPDEST where a sibling has PUSH
// data, init code returning runtime code that jumps and is CALLed afterwards, init code that itself CREATEs) in
// ordered pairs and triples inside one frame, with and without a jump of the creating frame itself. Run through
// Call (the program is a factory contract) and through evm.Create (the program is itself init code at depth 0).

// storeCode writes code to memory offset 0.. in 32-byte words (the last word right-padded with zeroes).
func storeCode(code []byte) []byte {
	var out []byte
	for off := 0; off < len(code); off += 32 {
		w := make([]byte, 32)
		copy(w, code[off:])
		out = append(out, cat(pushN(w), push1(byte(off)), op(evm.MSTORE))...)
	}
	return out
}

// hop is PUSH1 t; JUMP; JUMPDEST placed at position at (t = the JUMPDEST's own position).
func hop(at int) []byte {
	if at+3 > 255 {
		panic("hop")
	}
	return []byte{byte(evm.PUSH1), byte(at + 3), byte(evm.JUMP), byte(evm.JUMPDEST)}
}

type initCode struct {
	name    string
	code    []byte
	runtime bool // returns runtime code: CALL the created address afterwards
}

func createElem(kind evm.OpCode, in initCode, salt byte) instr {
	c := storeCode(in.code)
	if kind == evm.CREATE2 {
		c = cat(c, push1(salt), push1(byte(len(in.code))), push1(0), push1(0), op(evm.CREATE2))
	} else {
		c = cat(c, push1(byte(len(in.code))), push1(0), push1(0), op(evm.CREATE))
	}
	name := fmt.Sprintf("%v(%s)", kind, in.name)
	if in.runtime {
		// [addr] -> CALL(gas, addr, 0, 0, 0, 0, 0) -> [addr, status] -> POP
		c = cat(c, push1(0), push1(0), push1(0), push1(0), push1(0), op(evm.DUP6), op(evm.GAS), op(evm.CALL), op(evm.POP))
		name += ";CALL(created)"
	}
	return instr{name, cat(c, op(evm.POP))}
}

func initFamily() (base, nested []initCode) {
	jumpFar := cat(push1(0x30), op(evm.JUMP))
	for len(jumpFar) < 0x30 {
		jumpFar = append(jumpFar, byte(evm.JUMPDEST))
	}
	jumpFar = append(jumpFar, byte(evm.JUMPDEST), byte(evm.STOP))
	rt := cat(hop(0), push1(1), push1(0), op(evm.SSTORE), op(evm.STOP)) // runtime code that jumps, then slot0 := 1
	retRT := func(prefix []byte) []byte {
		return cat(prefix, pushN(rt), push1(0), op(evm.MSTORE), push1(byte(len(rt))), push1(byte(32-len(rt))), op(evm.RETURN))
	}
	base = []initCode{
		{"nojump", cat(push1(1), push1(0), op(evm.SSTORE), op(evm.STOP)), false},
		{"jump-low", cat(hop(0), op(evm.STOP)), false},
		{"jump-far@0x30", jumpFar, false},
		{"jump-into-push-data@4", cat(push1(4), op(evm.JUMP), push1(byte(evm.JUMPDEST)), op(evm.STOP)), false},
		{"jump-to-jumpdest@4", cat(push1(4), op(evm.JUMP), op(evm.STOP), op(evm.JUMPDEST), op(evm.STOP)), false},
		{"returns-jumping-runtime", retRT(nil), true},
		{"jumps,returns-jumping-runtime", retRT(hop(0)), true},
	}
	// init code that itself CREATEs a child, optionally jumping before and/or after
	for _, child := range base[1:4] {
		for _, before := range []bool{false, true} {
			for _, after := range []bool{false, true} {
				var c []byte
				n := "nested["
				if before {
					c = append(c, hop(len(c))...)
					n += "jump;"
				}
				c = append(c, createElem(evm.CREATE, child, 0).code...)
				n += "CREATE(" + child.name + ")"
				if after {
					c = append(c, hop(len(c))...)
					n += ";jump"
				}
				c = append(c, byte(evm.STOP))
				nested = append(nested, initCode{n + "]", c, false})
			}
		}
	}
	return
}

func createPrograms() []callProg {
	base, nested := initFamily()
	kinds := []evm.OpCode{evm.CREATE, evm.CREATE2}
	elems := func(fam []initCode, salt byte) []instr {
		var out []instr
		for _, k := range kinds {
			for _, in := range fam {
				out = append(out, createElem(k, in, salt))
			}
		}
		return out
	}
	all := append(append([]initCode{}, base...), nested...)
	var out []callProg
	emit := func(parts ...instr) {
		for _, own := range []bool{false, true} { // does the creating frame itself jump first?
			var code []byte
			var names []string
			if own {
				code = hop(0)
				names = append(names, "jump")
			}
			for _, p := range parts {
				code = append(code, p.code...)
				names = append(names, p.name)
			}
			out = append(out, callProg{strings.Join(names, " ; "), code, false})
		}
	}
	for _, a := range elems(all, 0) {
		emit(a)
	}
	for _, a := range elems(all, 0) {
		for _, b := range elems(all, 1) {
			emit(a, b)
		}
	}
	for _, a := range elems(base, 0) {
		for _, b := range elems(base, 1) {
			for _, c := range elems(base, 2) {
				emit(a, b, c)
			}
		}
	}
	return out
}

func createMatrix() []config {
	return []config{
		{entry: entCall, gas: 10000000, value: 1},
		{entry: entCreate, gas: 10000000, value: 0},
		{entry: entCall, gas: 200000, value: 0},
	}
}

// ---- layer F: what a FAILED child did before failing must not matter to its parent ----
//
// parent = CALLKIND(child, gas 2,000,000) ; SSTORE(1 := status) ; SSTORE(0 := 1) ; STOP
// child  = <prefix> ; <failure>      for every prefix of <= 2 symbols and every failure kind.
// Differential oracle (worker): whenever the child of the prefixed run failed (status 0), everything observable
// about the transaction equals the control run whose child is the bare <failure>.

type failKind struct {
	name   string
	code   []byte
	revert bool // keeps the gas it did not use: gas left is not compared
}

func failKinds() []failKind {
	return []failKind{
		{"INVALID", op(opINVALID), false},
		{"REVERT(0,0)", cat(push1(0), push1(0), op(evm.REVERT)), true},
		{"out-of-gas(MLOAD 2^32-1)", cat(pushN([]byte{0xff, 0xff, 0xff, 0xff}), op(evm.MLOAD)), false},
		{"stack-underflow(POP x3)", cat(op(evm.POP), op(evm.POP), op(evm.POP)), false},
		{"bad-jump(0xff)", cat(push1(0xff), op(evm.JUMP)), false},
	}
}

func prefixAlphabet() []instr {
	a := seqAlphabet()
	a = append(a,
		instr{"ISSUE(5)", cat(push1(5), op(evm.ISSUE))},
		instr{"TRANSFERTOKEN(0x20,tkn,1)", cat(push1(0x20), pushAddr(aTkn), push1(1), op(evm.TRANSFERTOKEN))},
		instr{"TRANSFERTOKEN(0x20,lkc,1)", cat(push1(0x20), push1(0), push1(1), op(evm.TRANSFERTOKEN))},
		instr{"SSTORE(0:=2)", cat(push1(2), push1(0), op(evm.SSTORE))},
		instr{"LOG1(0,0x20,aa)", cat(push1(0xaa), push1(0x20), push1(0), op(evm.LOG1))},
		instr{"CALL(storer,v0,allgas)", callMacro(evm.CALL, &aStorer, 0, gasAll)},
		instr{"CALL(issuer,v0,allgas)", callMacro(evm.CALL, &aIssuer, 0, gasAll)},
		instr{"DELEGATECALL(issuelib,allgas)", callMacro(evm.DELEGATECALL, &aIssueLib, 0, gasAll)},
		instr{"CALL(0xff,v1,allgas)", callMacro(evm.CALL, &aSmallFF, 1, gasAll)},
		instr{"SELFDESTRUCT(0xff)", cat(push1(0xff), op(evm.SELFDESTRUCT))},
	)
	return a
}

type failProg struct {
	name        string
	parent      []byte
	child       []byte
	controlKey  string
	controlCode []byte
	revert      bool
}

func failPrograms() []failProg {
	sigma := prefixAlphabet()
	var prefixes []program
	prefixes = append(prefixes, program{})
	for _, a := range sigma {
		prefixes = append(prefixes, program{a})
	}
	for _, a := range sigma {
		for _, b := range sigma {
			prefixes = append(prefixes, program{a, b})
		}
	}
	gas := pushN([]byte{0x1e, 0x84, 0x80}) // 2,000,000: a fixed amount, all of it consumed by a child that fails hard
	tail := cat(push1(1), op(evm.SSTORE), push1(1), push1(0), op(evm.SSTORE), op(evm.STOP))
	type pk struct {
		name string
		code []byte
	}
	var parents []pk
	for _, k := range []struct {
		op evm.OpCode
		v  []byte
		n  string
	}{{evm.CALL, []byte{0}, "CALL(child,v0)"}, {evm.CALL, []byte{1}, "CALL(child,v1)"}, {evm.CALLCODE, []byte{0}, "CALLCODE(child,v0)"},
		{evm.DELEGATECALL, nil, "DELEGATECALL(child)"}, {evm.STATICCALL, nil, "STATICCALL(child)"}} {
		c := cat(push1(0x20), push1(0), push1(0), push1(0))
		if k.v != nil {
			c = append(c, push1(k.v[0])...)
		}
		c = cat(c, pushAddr(aAux), gas, op(k.op), tail)
		parents = append(parents, pk{k.n, c})
	}
	var out []failProg
	for _, par := range parents {
		for _, f := range failKinds() {
			for _, pre := range prefixes {
				n := par.name + " ; SSTORE(1:=status) ; SSTORE(0:=1) || child = " + pre.String() + " ; " + f.name
				out = append(out, failProg{n, par.code, cat(pre.bytes(), f.code), par.name + "|" + f.name, f.code, f.revert})
			}
		}
	}
	return out
}

func failMatrix() []config {
	return []config{{entry: entCall, gas: 10000000, value: 1}, {entry: entUTXOCall, gas: 10000000, value: 1000}}
}
