package main

import (
	"bytes"
	"fmt"
	"math/big"
	"sort"
	"strings"

	"verif/kv"
	"verif/vk"

	"github.com/lianxiangcloud/linkchain/libs/common"
	"github.com/lianxiangcloud/linkchain/libs/crypto"
	"github.com/lianxiangcloud/linkchain/state"
	"github.com/lianxiangcloud/linkchain/types"
	"github.com/lianxiangcloud/linkchain/vm/evm"
)

// ---- the fixed world every program runs in ----

func addr(hexs string) common.Address { return common.HexToAddress(hexs) }

var (
	aOrigin   = addr("0xc0a11e4000000000000000000000000000000001") // the externally owned caller
	aSelf     = addr("0x5e1f000000000000000000000000000000000002") // the account holding the program under test
	aReverter = addr("0xb100000000000000000000000000000000000003") // writes storage + log, then REVERT
	aInvalid  = addr("0xb200000000000000000000000000000000000004") // writes storage + log, then INVALID
	aStorer   = addr("0xb300000000000000000000000000000000000005") // slot0 := 1, returns 32 bytes
	aSuicider = addr("0xb400000000000000000000000000000000000006") // SELFDESTRUCT(0xff)
	aIssueLib = addr("0xb500000000000000000000000000000000000007") // ISSUE 5; STOP (no decimals())
	aIssuer   = addr("0xb600000000000000000000000000000000000008") // ISSUE 5 unless called with data; answers decimals()=8
	aSpinner  = addr("0xb700000000000000000000000000000000000009") // ISSUE 5 unless called with data; spins forever when asked decimals()
	aCreator  = addr("0xb80000000000000000000000000000000000000a") // CREATEs a child that stores, then INVALID
	aTokUser  = addr("0xb90000000000000000000000000000000000000b") // TRANSFERTOKEN(0x20, tkn, 1) then REVERT
	aEmpty    = addr("0xee0000000000000000000000000000000000000c") // never exists
	aAux      = addr("0xa0c5000000000000000000000000000000000a0c") // layer F: the child contract of the case (installed per program)
	aTkn      = addr("0x7000000000000000000000000000000000000070") // a token id
	aSmall00  = common.BytesToAddress([]byte{0x00})
	aSmall01  = common.BytesToAddress([]byte{0x01}) // also precompile ecrecover
	aSmall02  = common.BytesToAddress([]byte{0x02})
	aSmall03  = common.BytesToAddress([]byte{0x03}) // ripemd: the special-cased touch
	aSmall04  = common.BytesToAddress([]byte{0x04})
	aSmall20  = common.BytesToAddress([]byte{0x20}) // does not exist
	aSmallFF  = common.BytesToAddress([]byte{0xff}) // exists, balance 5
)

const (
	originBalance = 1000
	selfBalance   = 0x21
)

// storage slots used by the fixture
var slotIDs = []common.Hash{common.BytesToHash([]byte{0}), common.BytesToHash([]byte{1}), common.BytesToHash([]byte{0x20}), common.BytesToHash([]byte{0xff})}

var addrName = map[common.Address]string{
	aOrigin: "origin", aSelf: "self", aReverter: "reverter", aInvalid: "invalider", aStorer: "storer", aSuicider: "suicider",
	aIssueLib: "issuelib", aIssuer: "issuer", aSpinner: "spinner", aCreator: "creator", aTokUser: "tokuser", aEmpty: "empty", aTkn: "tkn", aAux: "child",
	aSmall00: "0x00", aSmall01: "0x01", aSmall02: "0x02", aSmall03: "0x03", aSmall04: "0x04", aSmall20: "0x20", aSmallFF: "0xff",
}

func nameOf(a common.Address) string {
	if n, ok := addrName[a]; ok {
		return n
	}
	return "0x" + hx(a[:])
}

// fixture contract codes
var (
	// mem[0..32]=0x2a; slot1:=1; LOG1(topic 0xaa, mem 0..32); then the tail
	writeThen = func(tail ...[]byte) []byte {
		return cat(append([][]byte{push1(0x2a), push1(0), op(evm.MSTORE), push1(1), push1(1), op(evm.SSTORE),
			push1(0xaa), push1(0x20), push1(0), op(evm.LOG1)}, tail...)...)
	}
	codeReverter = writeThen(push1(0x20), push1(0), op(evm.REVERT))
	codeInvalid  = writeThen(op(opINVALID))
	codeStorer   = cat(push1(1), push1(0), op(evm.SSTORE), push1(0x2a), push1(0), op(evm.MSTORE), push1(0x20), push1(0), op(evm.RETURN))
	codeSuicider = cat(push1(0xff), op(evm.SELFDESTRUCT))
	codeIssueLib = cat(push1(5), op(evm.ISSUE), op(evm.STOP))
	// 0:CALLDATASIZE 1:PUSH1 8 3:JUMPI 4:PUSH1 5 6:ISSUE 7:STOP 8:JUMPDEST ...
	codeIssuer  = cat(op(evm.CALLDATASIZE), push1(8), op(evm.JUMPI), push1(5), op(evm.ISSUE), op(evm.STOP), op(evm.JUMPDEST), push1(8), push1(0), op(evm.MSTORE), push1(0x20), push1(0), op(evm.RETURN))
	codeSpinner = cat(op(evm.CALLDATASIZE), push1(8), op(evm.JUMPI), push1(5), op(evm.ISSUE), op(evm.STOP), op(evm.JUMPDEST), push1(8), op(evm.JUMP))
	// child initcode: slot0:=1 in the child, INVALID  => the create fails after writing
	childFailInit = cat(push1(1), push1(0), op(evm.SSTORE), op(opINVALID))
	codeCreator   = cat(createMacro(childFailInit, 1), push1(0), op(evm.SSTORE)) // stores the create result (0) into slot0
	codeTokUser   = cat(push1(0x20), pushAddr(aTkn), push1(1), op(evm.TRANSFERTOKEN), push1(0), push1(0), op(evm.REVERT))
)

// world is one worker's committed pre-state database.
type world struct {
	db       state.Database
	root     common.Hash
	pristine *state.StateDB // opened at root, only ever read
	aux      []byte         // layer F: code installed at aAux (the child contract) whenever a program is installed at aSelf
}

func bi(n int64) *big.Int { return new(big.Int).SetInt64(n) }

func buildWorld() *world {
	db := state.NewDatabase(kv.NewCopyDB())
	st, err := state.New(common.EmptyHash, db)
	if err != nil {
		vk.Fatalf("state.New: %v", err)
	}
	st.AddBalance(aOrigin, bi(originBalance))
	st.AddTokenBalance(aOrigin, aTkn, bi(10))
	st.SetNonce(aOrigin, 7)

	st.AddBalance(aSelf, bi(selfBalance))
	st.SetNonce(aSelf, 1)
	st.AddTokenBalance(aSelf, aTkn, bi(3))
	st.AddTokenBalance(aSelf, aSmall01, bi(0x20))
	st.AddTokenBalance(aSelf, aSmallFF, bi(1))
	st.SetState(aSelf, slotIDs[0], []byte{7})
	st.SetState(aSelf, slotIDs[3], []byte{9})

	deploy := func(a common.Address, code []byte, bal int64) {
		st.SetNonce(a, 1)
		st.SetCode(a, code)
		if bal > 0 {
			st.AddBalance(a, bi(bal))
		}
	}
	deploy(aReverter, codeReverter, 0)
	deploy(aInvalid, codeInvalid, 2)
	deploy(aStorer, codeStorer, 0)
	st.SetState(aStorer, slotIDs[1], []byte{5})
	deploy(aSuicider, codeSuicider, 3)
	st.AddTokenBalance(aSuicider, aSmall01, bi(2))
	st.SetTokenBalance(aSuicider, aTkn, bi(0)) // a token it once held and spent completely: a zero entry in committed state
	deploy(aIssueLib, codeIssueLib, 0)
	deploy(aIssuer, codeIssuer, 0)
	deploy(aSpinner, codeSpinner, 0)
	deploy(aCreator, codeCreator, 4)
	deploy(aTokUser, codeTokUser, 0)
	st.AddTokenBalance(aTokUser, aTkn, bi(2))

	st.AddBalance(aSmallFF, bi(5))

	root, err := st.Commit(false, 1)
	if err != nil {
		vk.Fatalf("commit world: %v", err)
	}
	if err := db.TrieDB().Commit(root, false); err != nil {
		vk.Fatalf("flush world: %v", err)
	}
	w := &world{db: db, root: root}
	w.pristine = w.open(nil)
	return w
}

// open returns a fresh StateDB at the world root. If code != nil it is installed at aSelf (the way
// vm/runtime.Execute installs the code it runs). The pre-state root of such a StateDB is obtained from a
// separate instance opened the same way (IntermediateRoot finalises, the instance that runs is not finalised
// so that opening stays cheap; a revert that went too far would show up as a code difference to the twin).
func (w *world) open(code []byte) *state.StateDB {
	st, err := state.New(w.root, w.db)
	if err != nil {
		vk.Fatalf("state.New(world): %v", err)
	}
	if code != nil {
		st.SetCode(aSelf, code)
		if w.aux != nil {
			st.SetNonce(aAux, 1)
			st.SetCode(aAux, w.aux)
		}
	}
	return st
}

// ---- explicit world dump ----
//
// The observable world of a run is described as a DELTA against the run's pre-state: for every state
// object the StateDB holds in memory (state.VerifLoaded, an add-only hook) each field is compared with the
// value an untouched twin StateDB (ref) reports for the same address. Objects that are not in memory are
// identical to the committed pre-state by construction of StateDB; the state root (IntermediateRoot) is
// compared in addition, so neither of the two is relied on alone.

// delta: sorted "address/field: before -> after" lines, plus logs and the refund counter.
type delta struct {
	lines  []string
	logs   string
	nlogs  int
	refund uint64
}

var emptyCodeHash = crypto.Keccak256Hash(nil)

func trimZ(b []byte) string { return hx(bytes.TrimLeft(b, "\x00")) }

func takeDelta(st, ref *state.StateDB) *delta {
	d := &delta{}
	add := func(a common.Address, field, before, after string) {
		d.lines = append(d.lines, fmt.Sprintf("%s/%s: %s -> %s", nameOf(a), field, before, after))
	}
	for _, o := range st.VerifLoaded() {
		r := ref.GetAccount(o.Addr)
		switch {
		case o.Deleted && r == nil:
			continue
		case o.Deleted:
			add(o.Addr, "existence", "yes", "no")
			continue
		case r == nil:
			// a new account: compare with the empty account
			add(o.Addr, "existence", "no", "yes")
			if o.Balance.Sign() != 0 {
				add(o.Addr, "balance", "0", o.Balance.String())
			}
			if o.Nonce != 0 {
				add(o.Addr, "nonce", "0", fmt.Sprint(o.Nonce))
			}
			if o.Credits != 1 { // createObject starts at Credits 1
				add(o.Addr, "credits", "1", fmt.Sprint(o.Credits))
			}
			if !bytes.Equal(o.CodeHash, emptyCodeHash[:]) {
				add(o.Addr, "code", "", hx(o.CodeHash[:3]))
			}
			if at := dumpTokens(o.Tokens); at != "" {
				add(o.Addr, tokenClass("", at), "{}", "{"+at+"}")
			}
			for k, v := range o.Dirty {
				if len(bytes.TrimLeft(v, "\x00")) > 0 {
					add(o.Addr, "storage/"+trimZ(k[:]), "", trimZ(v))
				}
			}
			if o.Suicided {
				add(o.Addr, "suicided", "false", "true")
			}
			continue
		}
		if o.Balance.Cmp(r.Balance) != 0 {
			add(o.Addr, "balance", r.Balance.String(), o.Balance.String())
		}
		if o.Nonce != r.Nonce {
			add(o.Addr, "nonce", fmt.Sprint(r.Nonce), fmt.Sprint(o.Nonce))
		}
		if o.Credits != r.Credits {
			add(o.Addr, "credits", fmt.Sprint(r.Credits), fmt.Sprint(o.Credits))
		}
		if !bytes.Equal(o.CodeHash, r.CodeHash) {
			add(o.Addr, "code", hx(r.CodeHash[:3]), hx(o.CodeHash[:3]))
		}
		if o.Suicided {
			add(o.Addr, "suicided", "false", "true")
		}
		if bt, at := dumpTokens(r.Tokens), dumpTokens(o.Tokens); bt != at {
			add(o.Addr, tokenClass(bt, at), "{"+bt+"}", "{"+at+"}")
		}
		for k, v := range o.Dirty {
			if b := ref.GetState(o.Addr, k); trimZ(b) != trimZ(v) {
				add(o.Addr, "storage/"+trimZ(k[:]), trimZ(b), trimZ(v))
			}
		}
		for k, v := range o.Origin {
			if _, dirty := o.Dirty[k]; dirty {
				continue
			}
			if b := ref.GetState(o.Addr, k); trimZ(b) != trimZ(v) {
				add(o.Addr, "storage-cache/"+trimZ(k[:]), trimZ(b), trimZ(v))
			}
		}
	}
	sort.Strings(d.lines)
	logs := st.Logs()
	d.nlogs = len(logs)
	d.logs = dumpLogs(logs)
	d.refund = st.GetRefund()
	return d
}

func dumpTokens(m map[common.Address]*big.Int) string {
	if len(m) == 0 {
		return ""
	}
	ks := make([]string, 0, len(m))
	for k, v := range m {
		ks = append(ks, nameOf(k)+"="+v.String())
	}
	sort.Strings(ks)
	return strings.Join(ks, ",")
}

// tokenClass names how two raw token maps (before, after) differ: in real balances, or only in zero entries
// that appeared ("left") or disappeared ("lost").
func tokenClass(before, after string) string {
	if stripZero(before) != stripZero(after) {
		return "token-balance"
	}
	zb, za := zeroEntries(before), zeroEntries(after)
	left, lost := false, false
	for k := range za {
		if !zb[k] {
			left = true
		}
	}
	for k := range zb {
		if !za[k] {
			lost = true
		}
	}
	switch {
	case left && lost:
		return "token-zero-entry-left+lost"
	case lost:
		return "token-zero-entry-lost"
	}
	return "token-zero-entry-left"
}

func zeroEntries(s string) map[string]bool {
	m := map[string]bool{}
	if s == "" {
		return m
	}
	for _, e := range strings.Split(s, ",") {
		if strings.HasSuffix(e, "=0") {
			m[e] = true
		}
	}
	return m
}

func stripZero(s string) string {
	if s == "" {
		return ""
	}
	var keep []string
	for _, e := range strings.Split(s, ",") {
		if !strings.HasSuffix(e, "=0") {
			keep = append(keep, e)
		}
	}
	return strings.Join(keep, ",")
}

func dumpLogs(logs []*types.Log) string {
	var b strings.Builder
	for _, l := range logs {
		fmt.Fprintf(&b, "%s[", nameOf(l.Address))
		for _, t := range l.Topics {
			b.WriteString(trimZ(t[:]))
			b.WriteByte(',')
		}
		fmt.Fprintf(&b, "]%s#%d;", hx(l.Data), l.Index)
	}
	return b.String()
}

func (d *delta) String() string {
	s := strings.Join(d.lines, "; ")
	if d.logs != "" {
		s += "; logs=" + d.logs
	}
	if d.refund != 0 {
		s += fmt.Sprintf("; refund-counter=%d", d.refund)
	}
	return s
}

// fieldOf extracts the field class of a delta line ("self/storage/01: .." -> "storage").
func fieldOf(line string) string {
	i := strings.Index(line, "/")
	j := strings.Index(line, ":")
	f := line[i+1 : j]
	if k := strings.Index(f, "/"); k >= 0 {
		f = f[:k]
	}
	return f
}

// parse splits a delta line "addr/field: before -> after".
func parseLine(l string) (key, field, before, after string) {
	i := strings.Index(l, ": ")
	key = l[:i]
	rest := l[i+2:]
	j := strings.Index(rest, " -> ")
	before, after = rest[:j], rest[j+4:]
	field = fieldOf(l)
	if strings.HasPrefix(field, "token-") {
		// one group: the raw token map of the account
		key = key[:strings.Index(key, "/")] + "/tokens"
	}
	return
}

// diff returns the sorted field classes in which two deltas (taken against the same ref) differ.
func (d *delta) diff(o *delta) (classes []string, detail string) {
	set := map[string]bool{}
	var det []string
	type ent struct{ field, before, after, line string }
	index := func(l []string) map[string]ent {
		m := make(map[string]ent, len(l))
		for _, x := range l {
			k, f, b, a := parseLine(x)
			m[k] = ent{f, b, a, x}
		}
		return m
	}
	dm, om := index(d.lines), index(o.lines)
	keys := map[string]bool{}
	for k := range dm {
		keys[k] = true
	}
	for k := range om {
		keys[k] = true
	}
	for k := range keys {
		x, inD := dm[k]
		y, inO := om[k]
		if inD && inO && x.after == y.after {
			continue
		}
		cls := x.field
		if !inD {
			cls = y.field
		}
		if strings.HasSuffix(k, "/tokens") {
			// the raw token maps differ: only by zero entries?
			xa, ya := x.after, y.after
			if !inD {
				xa = y.before
			}
			if !inO {
				ya = x.before
			}
			cls = tokenClass(strings.Trim(xa, "{}"), strings.Trim(ya, "{}"))
		}
		set[cls] = true
		switch {
		case inD && inO:
			det = append(det, fmt.Sprintf("%s: first %s, second %s (pre-state %s)", k, x.after, y.after, x.before))
		case inD:
			det = append(det, "only first: "+x.line)
		default:
			det = append(det, "only second: "+y.line)
		}
	}
	if d.logs != o.logs {
		set["logs"] = true
		det = append(det, fmt.Sprintf("logs %q vs %q", d.logs, o.logs))
	}
	if d.refund != o.refund {
		set["refund-counter"] = true
		det = append(det, fmt.Sprintf("refund counter %d vs %d", d.refund, o.refund))
	}
	for c := range set {
		classes = append(classes, c)
	}
	sort.Strings(classes)
	sort.Strings(det)
	if len(det) > 6 {
		det = det[:6]
	}
	return classes, strings.Join(det, "; ")
}

// empty: no difference to the pre-state at all.
func (d *delta) classes() []string {
	set := map[string]bool{}
	for _, l := range d.lines {
		set[fieldOf(l)] = true
	}
	if d.logs != "" {
		set["logs"] = true
	}
	if d.refund != 0 {
		set["refund-counter"] = true
	}
	var c []string
	for k := range set {
		c = append(c, k)
	}
	sort.Strings(c)
	return c
}
