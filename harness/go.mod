module verif

go 1.12

require (
	github.com/lianxiangcloud/linkchain v0.0.0
	github.com/pkg/errors v0.8.1
)

replace github.com/lianxiangcloud/linkchain => /repo

replace (
	github.com/NebulousLabs/go-upnp => github.com/lianxiangcloud/go-upnp v0.0.0-20190905032046-65768e0b268c
	github.com/go-interpreter/wagon => github.com/xunleichain/wagon v0.5.3
	gopkg.in/sourcemap.v1 => github.com/go-sourcemap/sourcemap v1.0.5
)
