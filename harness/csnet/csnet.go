// Package csnet: real ConsensusState objects under a harness-owned network and clock.
package csnet

import (
	"bytes"
	"fmt"
	"sort"
	"time"
	"verif/kv"

	cfg "github.com/lianxiangcloud/linkchain/config"
	cs "github.com/lianxiangcloud/linkchain/consensus"
	"github.com/lianxiangcloud/linkchain/libs/common"
	"github.com/lianxiangcloud/linkchain/libs/crypto"
	dbm "github.com/lianxiangcloud/linkchain/libs/db"
	"github.com/lianxiangcloud/linkchain/libs/log"
	"github.com/lianxiangcloud/linkchain/metrics"
	"github.com/lianxiangcloud/linkchain/types"
)

const ChainID = "verif-chain"

func init() {
	// node.NewNode initialises the process-wide metrics singleton; ApplyBlock dereferences it.
	k := crypto.GenPrivKeyEd25519FromSecret([]byte("verif-metrics-node"))
	metrics.PrometheusMetricInstance.Init(cfg.DefaultConfig(), k.PubKey(), log.NewNopLogger())
}

// Fixture: fixed validator keys (index = position in the address-sorted validator set) and genesis.
type Fixture struct {
	Keys   []crypto.PrivKeyEd25519
	Vals   []*types.Validator
	Powers []int64
	Gen    *types.GenesisDoc
}

// NewFixture creates n validators with the given powers. Keys are derived from fixed secrets and then
// sorted by address so that Keys[i] is validator index i.
func NewFixture(powers []int64) *Fixture {
	n := len(powers)
	type kv struct {
		k crypto.PrivKeyEd25519
		a []byte
	}
	ks := make([]kv, n)
	for i := 0; i < n; i++ {
		k := crypto.GenPrivKeyEd25519FromSecret([]byte(fmt.Sprintf("verif-validator-%d", i)))
		ks[i] = kv{k, k.PubKey().Address()}
	}
	sort.Slice(ks, func(i, j int) bool { return bytes.Compare(ks[i].a, ks[j].a) < 0 })
	f := &Fixture{Powers: powers}
	gen := &types.GenesisDoc{ChainID: ChainID, ConsensusParams: types.DefaultConsensusParams()}
	for i := 0; i < n; i++ {
		f.Keys = append(f.Keys, ks[i].k)
		pk := ks[i].k.PubKey()
		gen.Validators = append(gen.Validators, types.GenesisValidator{PubKey: pk, Power: powers[i], Name: fmt.Sprintf("v%d", i),
			CoinBase: common.BytesToAddress(pk.Address())})
		f.Vals = append(f.Vals, &types.Validator{Address: pk.Address(), PubKey: pk, VotingPower: powers[i], CoinBase: common.BytesToAddress(pk.Address())})
	}
	f.Gen = gen
	return f
}

// GenesisStatus returns a fresh genesis status (with a fixed LastBlockTime).
func (f *Fixture) GenesisStatus() cs.NewStatus {
	st, err := cs.MakeGenesisStatus(f.Gen)
	if err != nil {
		panic(err)
	}
	st.LastBlockTime = 1000
	return st
}

// ---------------------------------------------------------------------------------------------
// TrivApp: the smallest BlockChainApp. Blocks carry no transactions; application-level validity is
// "height and parent hash are right and the block is not on the harness's reject list".

type Committed struct {
	Height uint64
	Hash   common.Hash
}

type TrivApp struct {
	Vals    []*types.Validator
	Blocks  map[uint64]*types.Block
	Parts   map[uint64]*types.PartSet
	Seen    map[uint64]*types.Commit
	Commits []Committed // every CommitBlock call, in order
	Variant uint64      // makes CreateBlock's output distinct between instances (block time)
	Reject  map[common.Hash]bool
	// NextVals, if set for a height, is returned from CommitBlock as the validator list for height+1.
	NextVals map[uint64][]*types.Validator
	// Pruned heights answer the Load* queries as a block store does after DeleteHistoricalData: nothing there.
	Pruned map[uint64]bool
}

func NewTrivApp(vals []*types.Validator, variant uint64) *TrivApp {
	return &TrivApp{Vals: vals, Blocks: map[uint64]*types.Block{}, Parts: map[uint64]*types.PartSet{}, Seen: map[uint64]*types.Commit{},
		Variant: variant, Reject: map[common.Hash]bool{}, NextVals: map[uint64][]*types.Validator{}, Pruned: map[uint64]bool{}}
}

func (a *TrivApp) Height() uint64 {
	var h uint64
	for k := range a.Blocks {
		if k > h {
			h = k
		}
	}
	return h
}
func (a *TrivApp) LoadBlockMeta(height uint64) *types.BlockMeta {
	b := a.Blocks[height]
	if b == nil || a.Pruned[height] {
		return nil
	}
	return types.NewBlockMeta(b, a.Parts[height])
}
func (a *TrivApp) LoadBlock(height uint64) *types.Block {
	if a.Pruned[height] {
		return nil
	}
	return a.Blocks[height]
}
func (a *TrivApp) LoadBlockPart(height uint64, index int) *types.Part {
	// as BlockStore.LoadBlockPart: a part that is not stored (any index outside the stored set) is nil, not a panic
	if p := a.Parts[height]; p != nil && index >= 0 && index < p.Total() && !a.Pruned[height] {
		return p.GetPart(index)
	}
	return nil
}
func (a *TrivApp) LoadBlockCommit(height uint64) *types.Commit {
	if b := a.Blocks[height+1]; b != nil && !a.Pruned[height] {
		return b.LastCommit
	}
	return nil
}
func (a *TrivApp) LoadSeenCommit(height uint64) *types.Commit {
	if a.Pruned[height] {
		return nil
	}
	return a.Seen[height]
}
func (a *TrivApp) GetValidators(height uint64) []*types.Validator { return a.NextVals[height] }
func (a *TrivApp) GetRecoverValidators(uint64) []*types.Validator { return a.Vals }
func (a *TrivApp) SetLastChangedVals(uint64, []*types.Validator)  {}
func (a *TrivApp) PreRunBlock(block *types.Block)                 {}
func (a *TrivApp) parentHash(height uint64) common.Hash {
	if b := a.Blocks[height-1]; b != nil {
		return b.Hash()
	}
	return common.EmptyHash
}
func (a *TrivApp) CreateBlock(height uint64, maxTxs int, gasLimit uint64, timeUnix uint64) *types.Block {
	if height != a.Height()+1 {
		return nil
	}
	var total uint64
	if b := a.Blocks[height-1]; b != nil {
		total = b.TotalTxs
	}
	block := &types.Block{
		Header: &types.Header{Height: height, Time: 1000*height + a.Variant, NumTxs: 0, TotalTxs: total, ParentHash: a.parentHash(height), GasLimit: gasLimit},
		Data:   &types.Data{},
	}
	block.DataHash = block.Data.Hash()
	return block
}
func (a *TrivApp) CheckBlock(block *types.Block) bool {
	if block == nil || block.Header == nil || block.Data == nil {
		return false
	}
	if block.Height != a.Height()+1 || block.ParentHash != a.parentHash(block.Height) {
		return false
	}
	if block.DataHash != block.Data.Hash() {
		return false
	}
	return !a.Reject[block.Hash()]
}
func (a *TrivApp) CommitBlock(block *types.Block, blockParts *types.PartSet, seenCommit *types.Commit, fastsync bool) ([]*types.Validator, error) {
	a.Commits = append(a.Commits, Committed{block.Height, block.Hash()})
	a.Blocks[block.Height] = block
	a.Parts[block.Height] = blockParts
	a.Seen[block.Height] = seenCommit
	return a.NextVals[block.Height], nil
}

// ---------------------------------------------------------------------------------------------

// Node = a real ConsensusState for validator Index with its own TrivApp and status database.
type Node struct {
	*cs.VerifNode
	Index int
	App   *TrivApp
	DB    dbm.DB
}

// Config used by all consensus harnesses: empty blocks on, no timeout-commit skipping.
func Config() *cfg.ConsensusConfig {
	c := cfg.DefaultConsensusConfig()
	c.CreateEmptyBlocks = true
	c.CreateEmptyBlocksInterval = 0
	c.SkipTimeoutCommit = false
	// only the reactor's per-peer gossip routines read these (C16 runs them for a bounded number of iterations)
	c.PeerGossipSleepDuration = 1
	c.PeerQueryMaj23SleepDuration = 1
	return c
}

// NewNode builds a real node for validator i (i < 0: a non-validator observer).
func (f *Fixture) NewNode(i int, variant uint64) *Node {
	app := NewTrivApp(f.Vals, variant)
	db := kv.NewCopyDB() // MemDB with the production backend's copy and missing-key semantics
	st := f.GenesisStatus()
	cs.SaveStatus(db, st)
	be := cs.NewBlockExecutor(db, log.NewNopLogger(), cs.MockEvidencePool{})
	var pv types.PrivValidator
	if i >= 0 {
		pv = newCachedPV(f.Keys[i])
	}
	vn := cs.VerifNewNode(Config(), st, be, app, cs.MockMempool{}, cs.MockEvidencePool{}, pv)
	return &Node{VerifNode: vn, Index: i, App: app, DB: db}
}

// cachedPV is the repository's mock signer (types.MockPV, what its own consensus tests use) with the address and public
// key remembered: MockPV derives them from the private key on EVERY call (a scalar multiplication), and the state
// machine asks for its address at every step, which cost about 15% of the CPU time of the consensus searches. The
// signer is harness equipment, not code under test (the production signer FilePV is C04's subject).
type cachedPV struct {
	*types.MockPV
	addr crypto.Address
	pub  crypto.PubKey
}

func newCachedPV(k crypto.PrivKey) *cachedPV {
	pv := &cachedPV{MockPV: types.VerifNewMockPV(k)}
	pv.addr, pv.pub = pv.MockPV.GetAddress(), pv.MockPV.GetPubKey()
	return pv
}

func (pv *cachedPV) GetAddress() crypto.Address { return pv.addr }
func (pv *cachedPV) GetPubKey() crypto.PubKey   { return pv.pub }
func (pv *cachedPV) UpdatePrikey(k crypto.PrivKey) {
	pv.MockPV.UpdatePrikey(k)
	pv.addr, pv.pub = pv.MockPV.GetAddress(), pv.MockPV.GetPubKey()
}

// ---------------------------------------------------------------------------------------------
// Puppet-side builders (the harness holds every key).

var fixedTime = time.Unix(1500000000, 0).UTC()

// Vote builds a correctly signed vote of validator i.
func (f *Fixture) Vote(i int, height uint64, round int, typ byte, id types.BlockID) *types.Vote {
	pk := f.Keys[i].PubKey()
	v := &types.Vote{ValidatorAddress: pk.Address(), ValidatorIndex: i, ValidatorSize: len(f.Keys), Height: height, Round: round,
		Timestamp: fixedTime, Type: typ, BlockID: id}
	sig, err := f.Keys[i].Sign(v.SignBytes(ChainID))
	if err != nil {
		panic(err)
	}
	v.Signature = sig
	return v
}

// Proposal builds a signed proposal by validator i.
func (f *Fixture) Proposal(i int, height uint64, round int, parts types.PartSetHeader, polRound int, polID types.BlockID) *types.Proposal {
	p := types.NewProposal(height, round, parts, polRound, polID)
	p.Timestamp = fixedTime
	p.Type = types.ProposalTypeNormal
	sig, err := f.Keys[i].Sign(p.SignBytes(ChainID))
	if err != nil {
		panic(err)
	}
	p.Signature = sig
	return p
}

// BlockID of a block/partset pair.
func BlockID(b *types.Block, ps *types.PartSet) types.BlockID {
	return types.BlockID{Hash: b.Hash(), PartsHeader: ps.Header()}
}

// MakeBlock builds a height-(LastBlockHeight+1) block the way ConsensusState.createProposalBlock does
// (CreateBlock by the app, then the consensus-side header fields), for a puppet proposer.
// lastCommit nil means height 1 (empty, non-nil commit). fve is the fault-validator record required
// from height 2 on (nil at height 1).
func (f *Fixture) MakeBlock(st cs.NewStatus, app *TrivApp, proposer int, lastCommit *types.Commit, extraEv []types.Evidence) (*types.Block, *types.PartSet) {
	height := st.LastBlockHeight + 1
	if lastCommit == nil {
		lastCommit = &types.Commit{}
	}
	block := app.CreateBlock(height, st.ConsensusParams.BlockSize.MaxTxs, st.ConsensusParams.BlockSize.MaxGas, 0)
	if block == nil {
		panic("TrivApp.CreateBlock returned nil")
	}
	block.Header.Coinbase = common.BytesToAddress(f.Keys[proposer].PubKey().Address())
	block.AddEvidence(extraEv)
	if height > types.BlockHeightOne && !st.LastRecover {
		lastRound := lastCommit.FirstPrecommit().Round
		fvi := &types.FaultValidatorsEvidence{BlockHeight: height - 1, Round: lastRound}
		if lastRound == 0 {
			fvi.Proposer = st.LastValidators.GetProposer().PubKey
		} else {
			fvi.FaultVal = st.LastValidators.GetProposer().PubKey
			vs := st.LastValidators.Copy()
			vs.IncrementAccum(lastRound)
			fvi.Proposer = vs.GetProposer().PubKey
		}
		block.AddEvidence([]types.Evidence{fvi})
	}
	block.Recover = 0
	block.ChainID = st.ChainID
	block.LastCommit = lastCommit
	block.LastBlockID = st.LastBlockID
	block.LastCommitHash = block.LastCommit.Hash()
	block.EvidenceHash = block.Evidence.Hash()
	block.ConsensusHash = common.BytesToHash(st.ConsensusParams.Hash())
	block.ValidatorsHash = common.BytesToHash(st.Validators.Hash())
	return block, block.MakePartSet(st.ConsensusParams.BlockGossip.BlockPartSizeBytes)
}

// ProposerAt returns the validator index that proposes at (current height of st, round).
func (f *Fixture) ProposerAt(st cs.NewStatus, round int) int {
	vs := st.Validators.Copy()
	for i := 0; i < round; i++ {
		vs.IncrementAccum(1)
	}
	addr := vs.GetProposer().Address
	for i, k := range f.Keys {
		if bytes.Equal(k.PubKey().Address(), addr) {
			return i
		}
	}
	panic("proposer not in fixture")
}
