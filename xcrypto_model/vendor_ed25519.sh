#!/bin/bash
# Regenerates the vendored ed25519 group/field/scalar arithmetic (files ed25519_*.go in this directory)
# from the Go standard library sources of the LOCAL toolchain (crypto/internal/edwards25519, BSD licence,
# Copyright The Go Authors; upstream filippo.io/edwards25519). That package is `internal` and cannot be
# imported, and the overlay can only inject files into ONE directory, so the two upstream packages
# (edwards25519 and edwards25519/field) are flattened into package xcrypto with these mechanical edits:
#   package clause -> xcrypto ; field.Element/Element -> feElement ; Point -> edPoint ; Scalar -> edScalar ;
#   NewScalar/NewIdentityPoint/NewGeneratorPoint -> unexported ; internal/byteorder -> encoding/binary ;
#   duplicate `feOne` removed ; assembly variants dropped (generic code only) ;
#   `//go:build go1.21` added: the files are compiled inside module /repo whose go.mod says `go 1.12`; the
#   constraint upgrades the language version of these files only (allowed since Go 1.21).
# No arithmetic is changed. Only needed when the files are to be refreshed; the generated files are committed.
set -eu
HERE="${1:-$(cd "$(dirname "$0")" && pwd)}"   # optional arg: output directory
SRC="$(go env GOROOT)/src/crypto/internal/edwards25519"
conv() { # $1 = src file, $2 = dst name, $3 = "field" if from the field package
  local out="$HERE/$2"
  {
    echo "//go:build go1.21"
    echo
    echo "// Code vendored by vendor_ed25519.sh from Go $(go env GOVERSION) crypto/internal/edwards25519${3:+/field}/$(basename "$1"); DO NOT EDIT."
    echo "// Flattened into package xcrypto (identifiers renamed, see vendor_ed25519.sh); arithmetic unchanged."
    echo "// Licence: BSD-3-Clause, see LICENSE-go.txt in this directory."
    echo
    cat "$1"
  } | sed -E \
      -e 's/^package (edwards25519|field)$/package xcrypto/' \
      -e '/"crypto\/internal\/edwards25519\/field"/d' \
      -e 's#"internal/byteorder"#"encoding/binary"#' \
      -e 's/byteorder\.LeUint64/binary.LittleEndian.Uint64/g' \
      -e 's/byteorder\.LePutUint64/binary.LittleEndian.PutUint64/g' \
      -e 's/\bfield\.Element\b/feElement/g' \
      -e 's/\bElement\b/feElement/g' \
      -e 's/\bNewScalar\b/newEdScalar/g' \
      -e 's/\bNewIdentityPoint\b/newIdentityPoint/g' \
      -e 's/\bNewGeneratorPoint\b/newGeneratorPoint/g' \
      -e 's/\bPoint\b/edPoint/g' \
      -e 's/\bScalar\b/edScalar/g' \
      -e '/^var feOne = new\(feElement\)\.One\(\)$/d' \
    > "$out"
  gofmt -w "$out"
}
conv "$SRC/edwards25519.go" ed25519_point.go
conv "$SRC/scalar.go"       ed25519_scalar.go
conv "$SRC/scalar_fiat.go"  ed25519_scalar_fiat.go
conv "$SRC/scalarmult.go"   ed25519_scalarmult.go
conv "$SRC/tables.go"       ed25519_tables.go
conv "$SRC/field/fe.go"         ed25519_fe.go field
conv "$SRC/field/fe_generic.go" ed25519_fe_generic.go field
cat > "$HERE/ed25519_fe_glue.go" <<'EOG'
//go:build go1.21

// Glue replacing the per-architecture files of crypto/internal/edwards25519/field (fe_amd64*.go,
// fe_arm64*.go): always use the portable generic code. Licence: BSD-3-Clause, see LICENSE-go.txt.

package xcrypto

func feMul(v, x, y *feElement) { feMulGeneric(v, x, y) }

func feSquare(v, x *feElement) { feSquareGeneric(v, x) }

func (v *feElement) carryPropagate() *feElement { return v.carryPropagateGeneric() }
EOG
# The Go distribution here ships without its LICENSE file; golang.org/x/crypto carries the identical BSD text.
for l in "$(go env GOROOT)/LICENSE" "$(go env GOMODCACHE)"/golang.org/x/crypto@*/LICENSE; do
  if [ -f "$l" ]; then cp "$l" "$HERE/LICENSE-go.txt"; chmod 644 "$HERE/LICENSE-go.txt"; break; fi
done
gofmt -l "$HERE"/ed25519_*.go
echo done
