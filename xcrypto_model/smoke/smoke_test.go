// End-to-end smoke test of the xcrypto stand-in: builds account->UTXO and UTXO->UTXO transactions with the
// repository's own constructors and runs the repository's own verification on them. Projected by
// ../conformance.sh into /repo/types/ as an external test (package types_test). See ../README.md (recipe).
package types_test

import (
	"bytes"
	"fmt"
	"math/big"
	"testing"

	"github.com/lianxiangcloud/linkchain/libs/common"
	"github.com/lianxiangcloud/linkchain/libs/crypto"
	"github.com/lianxiangcloud/linkchain/libs/cryptonote/ringct"
	lk "github.com/lianxiangcloud/linkchain/libs/cryptonote/types"
	"github.com/lianxiangcloud/linkchain/libs/cryptonote/xcrypto"
	"github.com/lianxiangcloud/linkchain/libs/log"
	"github.com/lianxiangcloud/linkchain/libs/ser"
	"github.com/lianxiangcloud/linkchain/types"
	"github.com/lianxiangcloud/linkchain/wallet/wallet"
)

// ---- minimal chain side: a UTXO store and a censor ------------------------------------------

type store struct {
	outs  []*types.UTXOOutputData // global index = position (single token)
	spent map[lk.Key]bool
}

func (s *store) GetUtxoOutput(token common.Address, seq uint64) (*types.UTXOOutputData, error) {
	if seq >= uint64(len(s.outs)) {
		return nil, fmt.Errorf("no output %d", seq)
	}
	return s.outs[seq], nil
}
func (s *store) GetUtxoOutputs(seqs []uint64, token common.Address) ([]*types.UTXOOutputData, error) {
	var r []*types.UTXOOutputData
	for _, q := range seqs {
		o, err := s.GetUtxoOutput(token, q)
		if err != nil {
			return nil, err
		}
		r = append(r, o)
	}
	return r, nil
}
func (s *store) HaveTxKeyimgAsSpent(k *lk.Key) bool { return s.spent[*k] }

type state struct{}

func (state) Exist(common.Address) bool           { return true }
func (state) GetNonce(common.Address) uint64      { return 0 }
func (state) SetNonce(common.Address, uint64)     {}
func (state) GetBalance(common.Address) *big.Int  { return new(big.Int).Lsh(big.NewInt(1), 100) }
func (state) SubBalance(common.Address, *big.Int) {}
func (state) GetTokenBalance(a, t common.Address) *big.Int {
	return new(big.Int).Lsh(big.NewInt(1), 100)
}
func (state) SubTokenBalance(common.Address, common.Address, *big.Int) {}
func (state) IsContract(common.Address) bool                           { return false }

type censor struct{ st *store }

func (c *censor) TxMgr() types.TxMgr                               { return nil }
func (c *censor) State() types.State                               { return state{} }
func (c *censor) Block() *types.Block                              { return nil }
func (c *censor) GetLastChangedVals() (uint64, []*types.Validator) { return 0, nil }
func (c *censor) LockState()                                       {}
func (c *censor) UnlockState()                                     {}
func (c *censor) IsWasmContract([]byte) bool                       { return false }
func (c *censor) BlockChain() types.BlockChain                     { return c }
func (c *censor) IsTxSpendTimeUnlocked(uint64) bool                { return true }
func (c *censor) UTXOStore() types.UTXOStore                       { return c.st }
func (c *censor) Mempool() types.Mempool                           { return nil }
func (c *censor) GetUTXOGas() uint64                               { return 0x7a120 }

// ---- wallet side: what wallet.LinkAccount.processNewTransaction does, without its database -------------

type owned struct {
	Global   uint64
	RKey     lk.PublicKey
	OutIndex uint64
	Amount   *big.Int
	Mask     lk.Key
	SubIdx   uint64
	KeyImage lk.Key
}

func scan(t *testing.T, acc *wallet.AccountBase, tx *types.UTXOTransaction, firstGlobal uint64) []owned {
	keys := acc.GetKeys()
	var res []owned
	outputID := -1
	for _, o := range tx.Outputs {
		ro, ok := o.(*types.UTXOOutput)
		if !ok {
			continue
		}
		outputID++
		rkeys := append([]lk.PublicKey{tx.RKey}, tx.AddKeys...)
		var ders []lk.KeyDerivation
		back := map[lk.KeyDerivation]lk.PublicKey{}
		for _, rk := range rkeys {
			d, err := xcrypto.GenerateKeyDerivation(rk, keys.ViewSKey)
			if err != nil {
				continue
			}
			ders = append(ders, d)
			back[d] = rk
		}
		der, subIdx, err := types.IsOutputBelongToAccount(keys, acc.KeyIndex, ro.OTAddr, ders, uint64(outputID))
		if err != nil {
			continue
		}
		sk, _ := xcrypto.DeriveSecretKey(der, outputID, keys.SpendSKey)
		if subIdx > 0 {
			sk = xcrypto.SecretAdd(sk, xcrypto.GetSubaddressSecretKey(keys.ViewSKey, uint32(subIdx)))
		}
		ki, _ := xcrypto.GenerateKeyImage(lk.PublicKey(ro.OTAddr), sk)
		ecdh := &lk.EcdhTuple{Mask: tx.RCTSig.EcdhInfo[outputID].Mask, Amount: tx.RCTSig.EcdhInfo[outputID].Amount}
		scalar, _ := xcrypto.DerivationToScalar(der, outputID)
		if !xcrypto.EcdhDecode(ecdh, lk.Key(scalar), false) {
			t.Fatal("EcdhDecode")
		}
		// the wallet's "check encode amount is valid"
		_, c, _, err := ringct.ProveRangeBulletproof(lk.KeyV{ecdh.Amount}, lk.KeyV{lk.Key(scalar)})
		if err != nil {
			t.Fatal(err)
		}
		c8, _ := ringct.Scalarmult8(c[0])
		if c8 != tx.RCTSig.OutPk[outputID].Mask {
			t.Fatalf("output %d: decoded amount does not open the commitment", outputID)
		}
		res = append(res, owned{
			Global: firstGlobal + uint64(outputID), RKey: back[der], OutIndex: uint64(outputID),
			Amount: new(big.Int).Mul(types.Hash2BigInt(ecdh.Amount), big.NewInt(types.UTXO_COMMITMENT_CHANGE_RATE)),
			Mask:   ecdh.Mask, SubIdx: subIdx, KeyImage: lk.Key(ki),
		})
	}
	return res
}

func mkWallet(t *testing.T, seed string, subs int) *wallet.AccountBase {
	var rk lk.SecretKey
	copy(rk[:], crypto.Keccak256([]byte(seed)))
	acc, err := wallet.RecoveryKeyToAccount(rk)
	if err != nil {
		t.Fatal(err)
	}
	if err := acc.CreateSubAccountN(subs + 1); err != nil {
		t.Fatal(err)
	}
	return acc
}

func addrOf(acc *wallet.AccountBase, sub int) lk.AccountAddress { return acc.Keys[sub].Addr }

func source(st *store, o owned, ring []uint64) *types.UTXOSourceEntry {
	s := &types.UTXOSourceEntry{RKey: o.RKey, OutIndex: o.OutIndex, Amount: new(big.Int).Set(o.Amount), Mask: o.Mask}
	for j, g := range ring { // ring must be sorted ascending (key offsets are relative)
		if g == o.Global {
			s.RingIndex = uint64(j)
		}
		s.Ring = append(s.Ring, types.UTXORingEntry{Index: g, OTAddr: st.outs[g].OTAddr, Commit: st.outs[g].Commit})
	}
	return s
}

func reencode(t *testing.T, tx *types.UTXOTransaction) *types.UTXOTransaction {
	bz, err := ser.EncodeToBytes(tx)
	if err != nil {
		t.Fatal(err)
	}
	var cp types.UTXOTransaction
	if err := ser.DecodeBytes(bz, &cp); err != nil {
		t.Fatal(err)
	}
	return &cp
}

func TestXcryptoSmoke(t *testing.T) {
	log.Root().SetHandler(log.DiscardHandler())
	xcrypto.VerifSetSeed(1)
	st := &store{spent: map[lk.Key]bool{}}
	cen := &censor{st}
	A, B := mkWallet(t, "wallet-A", 2), mkWallet(t, "wallet-B", 0)
	key, _ := crypto.HexToECDSA("45a915e4d060149eb4365960e6a7a45f334393093061116b197e3240065ff2d8")
	from := crypto.PubkeyToAddress(key.PublicKey)
	e18 := func(n int64) *big.Int { return new(big.Int).Mul(big.NewInt(n), big.NewInt(1e18)) }
	fee := new(big.Int).Mul(big.NewInt(types.ParGasPrice), new(big.Int).SetUint64(types.CalNewAmountGas(e18(6), types.EverLiankeFee)))

	// ---------------- 1. account -> UTXO (three confidential outputs) ----------------
	dests := []types.DestEntry{
		&types.UTXODestEntry{Addr: addrOf(A, 0), Amount: e18(3)},
		&types.UTXODestEntry{Addr: addrOf(A, 1), Amount: e18(2), IsSubaddress: true},
		&types.UTXODestEntry{Addr: addrOf(B, 0), Amount: e18(1)},
	}
	src := &types.AccountSourceEntry{From: from, Nonce: 0, Amount: new(big.Int).Add(e18(6), fee)}
	tx1, _, err := types.NewAinTransaction(src, dests, common.EmptyAddress, nil)
	if err != nil {
		t.Fatal(err)
	}
	if err := tx1.Sign(types.GlobalSTDSigner, key); err != nil {
		t.Fatal(err)
	}
	if err := tx1.CheckBasic(cen); err != nil {
		t.Fatalf("Ain->Uout CheckBasic: %v", err)
	}
	tx1 = reencode(t, tx1)
	if err := tx1.CheckBasic(cen); err != nil {
		t.Fatalf("Ain->Uout CheckBasic after wire round trip: %v", err)
	}
	if tx1.UTXOKind() != types.AinUout || tx1.Fee.Cmp(fee) != 0 {
		t.Fatalf("kind %v fee %v", tx1.UTXOKind(), tx1.Fee)
	}
	if f, _ := tx1.From(); f != from {
		t.Fatal("sender")
	}
	if err := tx1.CheckState(&censorWithPool{cen}); err != nil {
		t.Fatalf("Ain->Uout CheckState: %v", err)
	}
	first := uint64(len(st.outs))
	st.outs = append(st.outs, tx1.GetOutputData(1)...)
	ownA, ownB := scan(t, A, tx1, first), scan(t, B, tx1, first)
	if len(ownA) != 2 || len(ownB) != 1 || ownA[0].Amount.Cmp(e18(3)) != 0 || ownA[1].Amount.Cmp(e18(2)) != 0 || ownA[1].SubIdx != 1 || ownB[0].Amount.Cmp(e18(1)) != 0 {
		t.Fatalf("scan: A=%+v B=%+v", ownA, ownB)
	}
	t.Logf("tx1 Ain->3xUout ok: size=%v, bulletproof L=%d", tx1.Size(), len(tx1.RCTSig.P.Bulletproofs[0].L))

	// negative: a tampered commitment / amount / proof must be caught by the Go-side checks
	{
		bad := reencode(t, tx1)
		bad.RCTSig.OutPk[0].Mask, _ = ringct.AddKeys(bad.RCTSig.OutPk[0].Mask, ringct.H) // +1 unit
		if err := bad.CheckBasic(cen); err == nil {
			t.Fatal("inflated output commitment accepted")
		} else {
			t.Logf("tampered outPk       -> %v", err)
		}
		bad = reencode(t, tx1)
		bad.RCTSig.P.Bulletproofs[0].Taux[0] ^= 1
		if err := bad.CheckBasic(cen); err == nil {
			t.Fatal("tampered range proof accepted")
		} else {
			t.Logf("tampered bulletproof -> %v", err)
		}
		bad = reencode(t, tx1)
		bad.Inputs[0].(*types.AccountInput).Amount.Add(bad.Inputs[0].(*types.AccountInput).Amount, big.NewInt(types.UTXO_COMMITMENT_CHANGE_RATE))
		if err := bad.CheckBasic(cen); err == nil {
			t.Fatal("tampered account input accepted")
		} else {
			t.Logf("tampered Ain amount  -> %v", err)
		}
	}

	// ---------------- 2. UTXO -> UTXO, ring of 3 (MLSAG path) ----------------
	utxoFee := new(big.Int).Mul(big.NewInt(types.ParGasPrice), new(big.Int).SetUint64(cen.GetUTXOGas()))
	change := new(big.Int).Sub(new(big.Int).Sub(e18(3), e18(1)), utxoFee)
	dests2 := []types.DestEntry{
		&types.UTXODestEntry{Addr: addrOf(B, 0), Amount: e18(1)},
		&types.UTXODestEntry{Addr: addrOf(A, 2), Amount: change, IsSubaddress: true, IsChange: true},
	}
	sources := []*types.UTXOSourceEntry{source(st, ownA[0], []uint64{0, 1, 2})}
	tx2, ephs, mkeys, _, err := types.NewUinTransaction(A.GetKeys(), A.KeyIndex, sources, dests2, common.EmptyAddress, common.EmptyAddress, nil)
	if err != nil {
		t.Fatal(err)
	}
	if err := types.UInTransWithRctSig(tx2, sources, ephs, dests2, mkeys); err != nil {
		t.Fatal(err)
	}
	if lk.Key(ephs[0].KeyImage) != ownA[0].KeyImage {
		t.Fatal("key image of the constructor differs from the scanned one")
	}
	if err := tx2.CheckBasic(cen); err != nil {
		t.Fatalf("Uin->Uout CheckBasic: %v", err)
	}
	tx2 = reencode(t, tx2)
	// NB: order matters - checkTxSemantic caches kind/utxoInNum/utxoOutNum that the later steps read
	for _, step := range []struct {
		name string
		f    func() error
	}{
		{"checkTxSemantic", func() error { return tx2.XCheckTxSemantic(cen) }},
		{"checkCommitEqual", tx2.XCheckCommitEqual},
		{"checkRctSigData", tx2.XCheckRctSigData},
		{"VerifyProofSemantic", tx2.VerifyProofSemantic},
		{"checkTxInputKeys (expandTransactionRctSig + checkRingctSignatures)", func() error { return tx2.XCheckTxInputKeys(cen) }},
		{"CheckBasic", func() error { return tx2.CheckBasic(cen) }},
		{"CheckState", func() error { return tx2.CheckState(&censorWithPool{cen}) }},
	} {
		if err := step.f(); err != nil {
			t.Fatalf("Uin->Uout after wire round trip: %s: %v", step.name, err)
		}
	}
	if tx2.UTXOKind() != types.UinUout || tx2.Fee.Cmp(utxoFee) != 0 || len(tx2.RCTSig.P.MGs[0].Ss) != 3 {
		t.Fatalf("kind %v fee %v", tx2.UTXOKind(), tx2.Fee)
	}
	first = uint64(len(st.outs))
	st.outs = append(st.outs, tx2.GetOutputData(2)...)
	st.spent[ownA[0].KeyImage] = true
	gotB, gotA := scan(t, B, tx2, first), scan(t, A, tx2, first)
	if len(gotB) != 1 || gotB[0].Amount.Cmp(e18(1)) != 0 || len(gotA) != 1 || gotA[0].Amount.Cmp(change) != 0 || gotA[0].SubIdx != 2 {
		t.Fatalf("scan tx2: A=%+v B=%+v", gotA, gotB)
	}
	t.Logf("tx2 Uin(ring 3)->2xUout ok: size=%v", tx2.Size())
	{
		bad := reencode(t, tx2)
		bad.Inputs[0].(*types.UTXOInput).KeyImage = ownA[1].KeyImage // a valid image of another output
		if err := bad.CheckBasic(cen); err == nil {
			t.Fatal("foreign key image accepted")
		} else {
			t.Logf("foreign key image    -> %v", err)
		}
		bad = reencode(t, tx2)
		bad.Inputs[0].(*types.UTXOInput).KeyOffset[1]++ // other ring member
		if err := bad.CheckBasic(cen); err == nil {
			t.Fatal("other ring accepted")
		} else {
			t.Logf("other ring member    -> %v", err)
		}
		bad = reencode(t, tx2)
		bad.Outputs[0].(*types.UTXOOutput).OTAddr = bad.Outputs[1].(*types.UTXOOutput).OTAddr // prefix hash changes
		if err := bad.CheckBasic(cen); err == nil {
			t.Fatal("redirected output accepted")
		} else {
			t.Logf("redirected output    -> %v", err)
		}
		bad = reencode(t, tx2)
		bad.RCTSig.P.PseudoOuts[0], _ = ringct.AddKeys(bad.RCTSig.P.PseudoOuts[0], ringct.H)
		bad.RCTSig.OutPk[0].Mask, _ = ringct.AddKeys(bad.RCTSig.OutPk[0].Mask, ringct.H) // balanced inflation
		if err := bad.CheckBasic(cen); err == nil {
			t.Fatal("balanced inflation accepted")
		} else {
			t.Logf("balanced inflation   -> %v", err)
		}
		// spending with the wrong wallet
		if _, _, _, _, err := types.NewUinTransaction(B.GetKeys(), B.KeyIndex, sources, dests2, common.EmptyAddress, common.EmptyAddress, nil); err == nil {
			t.Fatal("foreign wallet could build the input")
		}
	}

	// ---------------- 3. two inputs, rings of ONE member (ring-signature path), UTXO -> UTXO + account ----------------
	in := []owned{ownA[1], gotA[0]}
	total := new(big.Int).Add(in[0].Amount, in[1].Amount)
	accFee := new(big.Int).Mul(big.NewInt(types.ParGasPrice), new(big.Int).SetUint64(types.CalNewAmountGas(e18(1), types.EverLiankeFee)))
	fee3 := new(big.Int).Add(utxoFee, accFee)
	dests3 := []types.DestEntry{
		&types.AccountDestEntry{To: common.HexToAddress("0x7b6837189a3464d3c696069b2b42a9ae8e17dda1"), Amount: e18(1)},
		&types.UTXODestEntry{Addr: addrOf(B, 0), Amount: new(big.Int).Sub(new(big.Int).Sub(total, e18(1)), fee3)},
	}
	sources3 := []*types.UTXOSourceEntry{source(st, in[0], []uint64{in[0].Global}), source(st, in[1], []uint64{in[1].Global})}
	tx3, ephs3, mkeys3, _, err := types.NewUinTransaction(A.GetKeys(), A.KeyIndex, sources3, dests3, common.EmptyAddress, common.EmptyAddress, nil)
	if err != nil {
		t.Fatal(err)
	}
	if err := types.UInTransWithRctSig(tx3, sources3, ephs3, dests3, mkeys3); err != nil {
		t.Fatal(err)
	}
	tx3 = reencode(t, tx3)
	if err := tx3.CheckBasic(cen); err != nil {
		t.Fatalf("2xUin(ring 1)->Aout+Uout CheckBasic: %v", err)
	}
	if err := tx3.CheckState(&censorWithPool{cen}); err != nil {
		t.Fatalf("tx3 CheckState: %v", err)
	}
	if tx3.UTXOKind() != types.Uin|types.Uout|types.Aout || len(tx3.RCTSig.P.Ss) != 2 {
		t.Fatalf("kind %v", tx3.UTXOKind())
	}
	t.Logf("tx3 2xUin(ring 1)->Aout+Uout ok: size=%v", tx3.Size())
	{
		bad := reencode(t, tx3)
		bad.RCTSig.P.Ss[1].R[0] ^= 1
		if err := bad.CheckBasic(cen); err == nil {
			t.Fatal("tampered ring signature accepted")
		} else {
			t.Logf("tampered ring sig    -> %v", err)
		}
		bad = reencode(t, tx3)
		bad.Inputs[0].(*types.UTXOInput).KeyImage, bad.Inputs[1].(*types.UTXOInput).KeyImage = bad.Inputs[1].(*types.UTXOInput).KeyImage, bad.Inputs[0].(*types.UTXOInput).KeyImage
		if err := bad.CheckBasic(cen); err == nil {
			t.Fatal("swapped key images accepted")
		} else {
			t.Logf("swapped key images   -> %v", err)
		}
	}
	// determinism: same seed => byte-identical transaction
	xcrypto.VerifSetSeed(99)
	a1, _, _ := types.NewAinTransaction(src, dests, common.EmptyAddress, nil)
	xcrypto.VerifSetSeed(99)
	a2, _, _ := types.NewAinTransaction(src, dests, common.EmptyAddress, nil)
	b1, _ := ser.EncodeToBytes(a1)
	b2, _ := ser.EncodeToBytes(a2)
	if !bytes.Equal(b1, b2) {
		t.Fatal("same seed, different transaction")
	}
}

// CheckState touches the mempool's key-image set
type censorWithPool struct{ *censor }

func (c *censorWithPool) Mempool() types.Mempool { return pool{} }

type pool struct{}

func (pool) Reap(int) types.Txs                  { return nil }
func (pool) Update(uint64, types.Txs) error      { return nil }
func (pool) GetTxFromCache(common.Hash) types.Tx { return nil }
func (pool) Lock()                               {}
func (pool) Unlock()                             {}
func (pool) KeyImageExists(lk.Key) bool          { return false }
func (pool) KeyImagePush(lk.Key) bool            { return true }
func (pool) KeyImageRemoveKeys([]*lk.Key)        {}
func (pool) KeyImageReset()                      {}
