// Projected by ../conformance.sh into /repo/types/ (test-only, via a private overlay): exports the unexported
// verification steps of UTXOTransaction to the external smoke test. Not part of the stand-in.
package types

// shims so that the external smoke test can call the individual verification steps
func (tx *UTXOTransaction) XCheckTxSemantic(c TxCensor) error  { return tx.checkTxSemantic(c) }
func (tx *UTXOTransaction) XCheckCommitEqual() error           { return tx.checkCommitEqual() }
func (tx *UTXOTransaction) XCheckRctSigData() error            { return tx.checkRctSigData() }
func (tx *UTXOTransaction) XCheckTxInputKeys(c TxCensor) error { return tx.checkTxInputKeys(c) }
