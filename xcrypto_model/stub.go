// Pure-Go stand-in for the cgo package xcrypto (verification builds only; injected by overlay).
// Stage 1: every function panics. Replaced function by function by model.go.
package xcrypto

import "github.com/lianxiangcloud/linkchain/libs/cryptonote/types"

func WordsToBytes(words string) (sec types.SecretKey, err error) {
	panic("xcrypto stand-in: WordsToBytes not modelled")
}

func BytesToWords(sec types.SecretKey, lang string) (string, error) {
	panic("xcrypto stand-in: BytesToWords not modelled")
}

func GenerateKeys(recoverKey types.SecretKey) (sk types.SecretKey, pk types.PublicKey) {
	panic("xcrypto stand-in: GenerateKeys not modelled")
}

func SecretAdd(a, b types.SecretKey) (r types.SecretKey) {
	panic("xcrypto stand-in: SecretAdd not modelled")
}

func GetSubaddressSecretKey(main types.SecretKey, index uint32) (sub types.SecretKey) {
	panic("xcrypto stand-in: GetSubaddressSecretKey not modelled")
}

func GetSubaddress(keys *types.AccountKey, index uint32) (addr types.AccountAddress) {
	panic("xcrypto stand-in: GetSubaddress not modelled")
}

func GenerateKeyDerivation(pub types.PublicKey, sec types.SecretKey) (der types.KeyDerivation, err error) {
	panic("xcrypto stand-in: GenerateKeyDerivation not modelled")
}

func DeriveSubaddressPublicKey(pub types.PublicKey, derivation types.KeyDerivation, outIndex int) (derPub types.PublicKey, err error) {
	panic("xcrypto stand-in: DeriveSubaddressPublicKey not modelled")
}

func DeriveSecretKey(derivation types.KeyDerivation, outIndex int, sec types.SecretKey) (derSec types.SecretKey, err error) {
	panic("xcrypto stand-in: DeriveSecretKey not modelled")
}

func DerivePublicKey(derivation types.KeyDerivation, outIndex int, pub types.PublicKey) (derPub types.PublicKey, err error) {
	panic("xcrypto stand-in: DerivePublicKey not modelled")
}

func SecretKeyToPublicKey(sec types.SecretKey) (pub types.PublicKey, err error) {
	panic("xcrypto stand-in: SecretKeyToPublicKey not modelled")
}

func GenerateKeyImage(pub types.PublicKey, sec types.SecretKey) (ki types.KeyImage, err error) {
	panic("xcrypto stand-in: GenerateKeyImage not modelled")
}

func DerivationToScalar(derivation types.KeyDerivation, outIndex int) (res types.EcScalar, err error) {
	panic("xcrypto stand-in: DerivationToScalar not modelled")
}

func GenerateRingSignature(prefix types.Hash, keyImage types.KeyImage, pks []types.PublicKey, sec types.SecretKey, secIndex uint) (*types.Signature, error) {
	panic("xcrypto stand-in: GenerateRingSignature not modelled")
}

func CheckRingSignature(prefix types.Hash, keyImage types.KeyImage, pks []types.PublicKey, sig *types.Signature) bool {
	panic("xcrypto stand-in: CheckRingSignature not modelled")
}

func ScalarmultKey(p, a types.Key) (ret types.Key, err error) {
	panic("xcrypto stand-in: ScalarmultKey not modelled")
}

func ScalarmultBase(a types.Key) (ret types.Key) {
	panic("xcrypto stand-in: ScalarmultBase not modelled")
}

func SkpkGen() (sk types.Key, pk types.Key) {
	panic("xcrypto stand-in: SkpkGen not modelled")
}

func ScalarmultH(a types.Key) (ret types.Key) {
	panic("xcrypto stand-in: ScalarmultH not modelled")
}

func ZeroCommit(amount types.Lk_amount) (ret types.Key, err error) {
	panic("xcrypto stand-in: ZeroCommit not modelled")
}

func CheckKey(key types.PublicKey) bool {
	panic("xcrypto stand-in: CheckKey not modelled")
}

func EcdhDecode(masked *types.EcdhTuple, sharedSec types.Key, shortAmount bool) bool {
	panic("xcrypto stand-in: EcdhDecode not modelled")
}

func EcdhEncode(unmasked *types.EcdhTuple, sharedSec types.Key, shortAmount bool) bool {
	panic("xcrypto stand-in: EcdhEncode not modelled")
}

func Scalarmult8(p types.Key) (ret types.Key, err error) {
	panic("xcrypto stand-in: Scalarmult8 not modelled")
}

func ScAdd(a, b types.EcScalar) (ret types.Key) {
	panic("xcrypto stand-in: ScAdd not modelled")
}

func ScSub(a, b types.EcScalar) (ret types.Key) {
	panic("xcrypto stand-in: ScSub not modelled")
}

func SkGen() (ret types.Key) {
	panic("xcrypto stand-in: SkGen not modelled")
}

func GenC(a types.Key, amount types.Lk_amount) (ret types.Key, err error) {
	panic("xcrypto stand-in: GenC not modelled")
}

func AddKeys(a, b types.Key) (ret types.Key, err error) {
	panic("xcrypto stand-in: AddKeys not modelled")
}

func AddKeys2(a, b, B types.Key) (ret types.Key, err error) {
	panic("xcrypto stand-in: AddKeys2 not modelled")
}

func TlvVerRctNotSemanticsSimple(rctsign *types.RctSig) bool {
	panic("xcrypto stand-in: TlvVerRctNotSemanticsSimple not modelled")
}

func TlvVerRctSimple(rctsign *types.RctSig) (error, bool) {
	panic("xcrypto stand-in: TlvVerRctSimple not modelled")
}

func TlvProveRangeBulletproof(amounts types.KeyV, sk types.KeyV) (b *types.Bulletproof, c types.KeyV, masks types.KeyV, err error) {
	panic("xcrypto stand-in: TlvProveRangeBulletproof not modelled")
}

func TlvProveRangeBulletproof128(amounts types.KeyV, sk types.KeyV) (b *types.Bulletproof, c types.KeyV, masks types.KeyV, err error) {
	panic("xcrypto stand-in: TlvProveRangeBulletproof128 not modelled")
}

func TlvProveRctMGSimple(message types.Key, pubs types.CtkeyV, inSk types.Ctkey, a, Count types.Key, mscout *types.Key, kLRki *types.MultisigKLRki, index uint32) (sig *types.MgSig, err error) {
	panic("xcrypto stand-in: TlvProveRctMGSimple not modelled")
}

func TlvGetPreMlsagHash(rctsign *types.RctSig) (key types.Key, err error) {
	panic("xcrypto stand-in: TlvGetPreMlsagHash not modelled")
}

func TlvAddKeyV(a types.KeyV) (sum types.Key, err error) {
	panic("xcrypto stand-in: TlvAddKeyV not modelled")
}

func TlvVerBulletproof(bp *types.Bulletproof) (bool, error) {
	panic("xcrypto stand-in: TlvVerBulletproof not modelled")
}

func TlvVerBulletproof128(bp *types.Bulletproof) (bool, error) {
	panic("xcrypto stand-in: TlvVerBulletproof128 not modelled")
}

func TlvGetSubaddress(keys *types.AccountKey, index uint32) (addr types.AccountAddress, err error) {
	panic("xcrypto stand-in: TlvGetSubaddress not modelled")
}

func TlvKeyVTest(keysie int) error {
	panic("xcrypto stand-in: TlvKeyVTest not modelled")
}

func TlvRctSign(rctsign *types.RctSig) error {
	panic("xcrypto stand-in: TlvRctSign not modelled")
}

func TlvRctsigForTest(rctsign *types.RctSig) (*types.RctSig, error) {
	panic("xcrypto stand-in: TlvRctsigForTest not modelled")
}
