//go:build go1.21

// RingCT part of the xcrypto stand-in.
//   REAL (same algorithm as the C++ library, checked against vectors recorded in the tree):
//     EcdhEncode/EcdhDecode, genCommitmentMask, commitments returned by the range prover,
//     get_pre_mlsag_hash, MLSAG (proveRctMGSimple / verRctMGSimple / verRctNonSemanticsSimple),
//     the balance equation of verRctSemanticsSimple, one-member ring signatures.
//   IDEAL (documented assumption "the proof system is sound and complete"): Bulletproof range proofs.
// See README.md.

package xcrypto

import (
	"encoding/binary"
	"fmt"

	"github.com/lianxiangcloud/linkchain/libs/cryptonote/types"
)

// tlvMaxLen: every variable-length element crosses the cgo boundary behind a 16-bit length field
// (types/tlv.go). Larger elements cannot be represented; the stand-in fails such calls instead of
// guessing what the C++ decoder does with a wrapped length.
const tlvMaxLen = 1<<16 - 1

// ---------------------------------------------------------------------------------------------
// ECDH amount/mask masking (rctOps.cpp ecdhEncode/ecdhDecode, both the v1 and the short-amount v2 form)

func ecdhHash(sharedSec types.Key) [32]byte { return keccak([]byte("amount"), sharedSec[:]) }

// genCommitmentMask is rct::genCommitmentMask: Hs("commitment_mask" || sk).
func genCommitmentMask(sk types.Key) *edScalar {
	return hashToScalar([]byte("commitment_mask"), sk[:])
}

// EcdhEncode encode ecdhTuple info
func EcdhEncode(unmasked *types.EcdhTuple, sharedSec types.Key, shortAmount bool) bool {
	if shortAmount {
		unmasked.Mask = types.Key{}
		h := ecdhHash(sharedSec)
		for i := 0; i < 8; i++ {
			unmasked.Amount[i] ^= h[i]
		}
		return true
	}
	s1 := hashToScalar(sharedSec[:])
	s1b := scOut(s1)
	s2 := hashToScalar(s1b[:])
	unmasked.Mask = scOut(new(edScalar).Add(scReduce(unmasked.Mask), s1))
	unmasked.Amount = scOut(new(edScalar).Add(scReduce(unmasked.Amount), s2))
	return true
}

// EcdhDecode decode ecdhTuple info
func EcdhDecode(masked *types.EcdhTuple, sharedSec types.Key, shortAmount bool) bool {
	if shortAmount {
		masked.Mask = scOut(genCommitmentMask(sharedSec))
		h := ecdhHash(sharedSec)
		for i := 0; i < 8; i++ {
			masked.Amount[i] ^= h[i]
		}
		return true
	}
	s1 := hashToScalar(sharedSec[:])
	s1b := scOut(s1)
	s2 := hashToScalar(s1b[:])
	masked.Mask = scOut(new(edScalar).Subtract(scReduce(masked.Mask), s1))
	masked.Amount = scOut(new(edScalar).Subtract(scReduce(masked.Amount), s2))
	return true
}

// ---------------------------------------------------------------------------------------------
// get_pre_mlsag_hash (rctSigs.cpp) over serialize_rctsig_base (rctTypes.h), binary archive format

func isRctSimple(t uint8) bool {
	return t == uint8(types.RCTTypeSimple) || t == uint8(types.RCTTypeBulletproof) || t == uint8(types.RCTTypeBulletproof2)
}

func isRctBulletproof(t uint8) bool {
	return t == uint8(types.RCTTypeBulletproof) || t == uint8(types.RCTTypeBulletproof2)
}

func rctSigFitsTlv(rv *types.RctSig) bool {
	if rv.RctSigBase.TlvSize() > tlvMaxLen || rv.P.TlvSize() > tlvMaxLen {
		return false
	}
	return true
}

func serializeRctSigBase(rv *types.RctSig, inputs, outputs int) ([]byte, error) {
	out := make([]byte, 0, 16+len(rv.EcdhInfo)*64+len(rv.OutPk)*32+len(rv.PseudoOuts)*32)
	out = append(out, rv.Type)
	if rv.Type == uint8(types.RCTTypeNull) {
		return out, nil
	}
	if rv.Type != uint8(types.RCTTypeFull) && !isRctSimple(rv.Type) {
		return nil, fmt.Errorf("bad rct type")
	}
	out = append(out, varint(uint64(rv.TxnFee))...)
	if rv.Type == uint8(types.RCTTypeSimple) {
		if len(rv.PseudoOuts) != inputs {
			return nil, fmt.Errorf("pseudoOuts/inputs mismatch")
		}
		for i := range rv.PseudoOuts {
			out = append(out, rv.PseudoOuts[i][:]...)
		}
	}
	if len(rv.EcdhInfo) != outputs {
		return nil, fmt.Errorf("ecdhInfo/outputs mismatch")
	}
	for i := range rv.EcdhInfo {
		if rv.Type == uint8(types.RCTTypeBulletproof2) {
			out = append(out, rv.EcdhInfo[i].Amount[:8]...)
		} else {
			out = append(out, rv.EcdhInfo[i].Mask[:]...)
			out = append(out, rv.EcdhInfo[i].Amount[:]...)
		}
	}
	if len(rv.OutPk) != outputs {
		return nil, fmt.Errorf("outPk/outputs mismatch")
	}
	for i := range rv.OutPk {
		out = append(out, rv.OutPk[i].Mask[:]...)
	}
	return out, nil
}

func getPreMlsagHash(rv *types.RctSig) (key types.Key, err error) {
	if len(rv.MixRing) == 0 {
		return key, fmt.Errorf("Empty mixRing")
	}
	inputs := len(rv.MixRing)
	if !isRctSimple(rv.Type) {
		inputs = len(rv.MixRing[0])
	}
	outputs := len(rv.EcdhInfo)
	base, err := serializeRctSigBase(rv, inputs, outputs)
	if err != nil {
		return key, err
	}
	h1 := keccak(base)

	var kv []byte
	if isRctBulletproof(rv.Type) {
		for i := range rv.P.Bulletproofs {
			p := &rv.P.Bulletproofs[i]
			// V is not hashed: it is expanded from outPk (hashed with the base)
			for _, k := range []*types.Key{&p.A, &p.S, &p.T1, &p.T2, &p.Taux, &p.Mu} {
				kv = append(kv, k[:]...)
			}
			for n := range p.L {
				kv = append(kv, p.L[n][:]...)
			}
			for n := range p.R {
				kv = append(kv, p.R[n][:]...)
			}
			for _, k := range []*types.Key{&p.Aa, &p.B, &p.T} {
				kv = append(kv, k[:]...)
			}
		}
	} else {
		for i := range rv.P.RangeSigs {
			r := &rv.P.RangeSigs[i]
			for n := 0; n < 64; n++ {
				kv = append(kv, r.Asig.S0[n][:]...)
			}
			for n := 0; n < 64; n++ {
				kv = append(kv, r.Asig.S1[n][:]...)
			}
			kv = append(kv, r.Asig.Ee[:]...)
			for n := 0; n < 64; n++ {
				kv = append(kv, r.Ci[n][:]...)
			}
		}
	}
	h2 := keccak(kv)
	return keccak(rv.Message[:], h1[:], h2[:]), nil
}

// TlvGetPreMlsagHash is rct::get_pre_mlsag_hash: H(message || H(rctSigBase) || H(range proof fields)).
func TlvGetPreMlsagHash(rctsign *types.RctSig) (key types.Key, err error) {
	if !rctSigFitsTlv(rctsign) {
		return key, fmt.Errorf("tlv_get_pre_mlsag_hash internal error")
	}
	key, err = getPreMlsagHash(rctsign)
	if err != nil {
		return types.Key{}, fmt.Errorf("tlv_get_pre_mlsag_hash internal error")
	}
	return key, nil
}

// ---------------------------------------------------------------------------------------------
// MLSAG (rctSigs.cpp MLSAG_Gen / MLSAG_Ver with rows = 2, dsRows = 1)

type mlsagCol struct {
	P0, P1 *edPoint // dest, mask - pseudoOut
	b0, b1 [32]byte // their encodings as hashed
}

func mlsagMatrix(pubs types.CtkeyV, Cout types.Key) ([]mlsagCol, bool) {
	C, ok := decodePoint(Cout)
	if !ok {
		return nil, false
	}
	M := make([]mlsagCol, len(pubs))
	for i := range pubs {
		d, ok := decodePoint(pubs[i].Dest)
		if !ok {
			return nil, false
		}
		m, ok := decodePoint(pubs[i].Mask)
		if !ok {
			return nil, false
		}
		M[i].P0 = d
		M[i].b0 = pubs[i].Dest
		M[i].P1 = m.Subtract(m, C)
		M[i].b1 = encodePoint(M[i].P1)
	}
	return M, true
}

func mlsagHash(msg types.Key, pk0 [32]byte, L0, R0 *edPoint, pk1 [32]byte, L1 *edPoint) *edScalar {
	l0, r0, l1 := encodePoint(L0), encodePoint(R0), encodePoint(L1)
	return hashToScalar(msg[:], pk0[:], l0[:], r0[:], pk1[:], l1[:])
}

// sG + cP
func lin2(s *edScalar, c *edScalar, P *edPoint) *edPoint {
	return new(edPoint).VarTimeDoubleScalarBaseMult(c, P, s)
}

// sA + cB
func lin2p(s *edScalar, A *edPoint, c *edScalar, B *edPoint) *edPoint {
	return varTimeMul2(s, A, c, B)
}

// TlvProveRctMGSimple is rct::proveRctMGSimple: the MLSAG over the ring (dest_i, mask_i - Cout) with secrets
// (inSk.dest, inSk.mask - a). Like the C++ prover it does NOT check that the secrets match the column
// `index`; with wrong secrets it returns a signature that does not verify. Multisig (kLRki/mscout) is
// not modelled: kLRki must be nil; mscout, if given, receives c like in the C++ code.
func TlvProveRctMGSimple(message types.Key, pubs types.CtkeyV, inSk types.Ctkey, a, Count types.Key, mscout *types.Key, kLRki *types.MultisigKLRki, index uint32) (sig *types.MgSig, err error) {
	fail := fmt.Errorf("tlv_proveRangeBulletproof internal error") // sic: message of the original wrapper
	cols := len(pubs)
	if kLRki != nil || mscout != nil {
		// C++: "Only one of kLRki/mscout is present" unless both; the multisig path is outside the model.
		return nil, fail
	}
	if cols < 2 || int(index) >= cols || cols*72 > tlvMaxLen {
		return nil, fail // MLSAG_Gen: "Error! What is c if cols = 1!" / "Index out of range"
	}
	M, ok := mlsagMatrix(pubs, Count)
	if !ok {
		return nil, fail
	}
	x0 := scReduce(inSk.Dest)
	x1 := new(edScalar).Subtract(scReduce(inSk.Mask), scReduce(a))

	idx := int(index)
	Hi := hashToEC(M[idx].b0)
	II := varTimeMul(x0, Hi)
	alpha0, alpha1 := randScalar(), randScalar()
	cOld := mlsagHash(message, M[idx].b0, new(edPoint).ScalarBaseMult(alpha0), varTimeMul(alpha0, Hi),
		M[idx].b1, new(edPoint).ScalarBaseMult(alpha1))

	ss := make(types.KeyM, cols)
	var cc types.Key
	i := (idx + 1) % cols
	if i == 0 {
		cc = scOut(cOld)
	}
	for i != idx {
		s0, s1 := randScalar(), randScalar()
		ss[i] = types.KeyV{scOut(s0), scOut(s1)}
		L0 := lin2(s0, cOld, M[i].P0)
		R0 := lin2p(s0, hashToEC(M[i].b0), cOld, II)
		L1 := lin2(s1, cOld, M[i].P1)
		cOld = mlsagHash(message, M[i].b0, L0, R0, M[i].b1, L1)
		i = (i + 1) % cols
		if i == 0 {
			cc = scOut(cOld)
		}
	}
	// ss[index][j] = alpha[j] - c*xx[j]
	ss[idx] = types.KeyV{
		scOut(new(edScalar).Subtract(alpha0, new(edScalar).Multiply(cOld, x0))),
		scOut(new(edScalar).Subtract(alpha1, new(edScalar).Multiply(cOld, x1))),
	}
	return &types.MgSig{Ss: ss, Cc: cc, II: types.KeyV{encodePoint(II)}}, nil
}

// verRctMGSimple is rct::verRctMGSimple + MLSAG_Ver.
func verRctMGSimple(message types.Key, mg *types.MgSig, pubs types.CtkeyV, C types.Key) bool {
	cols := len(pubs)
	if cols < 2 {
		return false
	}
	if len(mg.II) != 1 || len(mg.Ss) != cols {
		return false
	}
	for i := range mg.Ss {
		if len(mg.Ss[i]) != 2 {
			return false
		}
		if !scCheck(mg.Ss[i][0]) || !scCheck(mg.Ss[i][1]) {
			return false
		}
	}
	if !scCheck(mg.Cc) {
		return false
	}
	M, ok := mlsagMatrix(pubs, C)
	if !ok {
		return false
	}
	II, ok := decodePoint(mg.II[0])
	if !ok {
		return false
	}
	cc := scReduce(mg.Cc)
	cOld := cc
	for i := 0; i < cols; i++ {
		s0, s1 := scReduce(mg.Ss[i][0]), scReduce(mg.Ss[i][1])
		Hi := hashToEC(M[i].b0)
		if ptIsIdentity(Hi) {
			return false
		}
		L0 := lin2(s0, cOld, M[i].P0)
		R0 := lin2p(s0, Hi, cOld, II)
		L1 := lin2(s1, cOld, M[i].P1)
		cOld = mlsagHash(message, M[i].b0, L0, R0, M[i].b1, L1)
	}
	return cOld.Equal(cc) == 1
}

func verRctNonSemanticsSimple(rv *types.RctSig) bool {
	if !isRctSimple(rv.Type) {
		return false
	}
	pseudoOuts := rv.PseudoOuts
	if isRctBulletproof(rv.Type) {
		pseudoOuts = rv.P.PseudoOuts
	}
	if len(pseudoOuts) != len(rv.MixRing) {
		return false
	}
	message, err := getPreMlsagHash(rv)
	if err != nil {
		return false
	}
	if len(rv.P.MGs) < len(rv.MixRing) {
		return false // C++ would index out of bounds; the model fails closed
	}
	for i := range rv.MixRing {
		if !verRctMGSimple(message, &rv.P.MGs[i], rv.MixRing[i], pseudoOuts[i]) {
			return false
		}
	}
	return true
}

// TlvVerRctNotSemanticsSimple is rct::verRctNonSemanticsSimple: every input's MLSAG verifies for the
// message get_pre_mlsag_hash(rv), the ring rv.mixRing[i], the pseudo output commitment and MGs[i].II.
func TlvVerRctNotSemanticsSimple(rctsign *types.RctSig) bool {
	if !rctSigFitsTlv(rctsign) {
		return false
	}
	return verRctNonSemanticsSimple(rctsign)
}

// verRctSemanticsSimple is rct::verRctSemanticsSimple for one signature: shape checks,
// sum(pseudoOuts) == sum(outPk.mask) + fee*H, and the range proofs (bulletproofs: ideal, see below;
// Borromean range signatures of RCTTypeSimple are not modelled and fail).
func verRctSemanticsSimple(rv *types.RctSig) bool {
	if !isRctSimple(rv.Type) {
		return false
	}
	bp := isRctBulletproof(rv.Type)
	if bp {
		n := 0
		for i := range rv.P.Bulletproofs {
			k := nBulletproofAmounts(&rv.P.Bulletproofs[i])
			if k == 0 {
				return false
			}
			n += k
		}
		if len(rv.OutPk) != n {
			return false
		}
		if len(rv.P.PseudoOuts) != len(rv.P.MGs) {
			return false
		}
		if len(rv.PseudoOuts) != 0 {
			return false
		}
	} else {
		if len(rv.OutPk) != len(rv.P.RangeSigs) {
			return false
		}
		if len(rv.PseudoOuts) != len(rv.P.MGs) {
			return false
		}
		if len(rv.P.PseudoOuts) != 0 {
			return false
		}
	}
	if len(rv.OutPk) != len(rv.EcdhInfo) {
		return false
	}
	pseudoOuts := rv.PseudoOuts
	if bp {
		pseudoOuts = rv.P.PseudoOuts
	}
	sumOut := newIdentityPoint()
	for i := range rv.OutPk {
		P, ok := decodePoint(rv.OutPk[i].Mask)
		if !ok {
			return false
		}
		sumOut.Add(sumOut, P)
	}
	sumOut.Add(sumOut, varTimeMul(scFromUint64(uint64(rv.TxnFee)), ptH))
	sumIn := newIdentityPoint()
	for i := range pseudoOuts {
		P, ok := decodePoint(pseudoOuts[i])
		if !ok {
			return false
		}
		sumIn.Add(sumIn, P)
	}
	if sumIn.Equal(sumOut) != 1 {
		return false
	}
	if !bp {
		return len(rv.P.RangeSigs) == 0 // Borromean verification not modelled
	}
	for i := range rv.P.Bulletproofs {
		if !verBulletproof(&rv.P.Bulletproofs[i], 64) {
			return false
		}
	}
	return true
}

// TlvVerRctSimple is rct::verRctSimple = verRctSemanticsSimple && verRctNonSemanticsSimple.
func TlvVerRctSimple(rctsign *types.RctSig) (error, bool) {
	if !rctSigFitsTlv(rctsign) {
		return fmt.Errorf("cgo TlvRctSign internal fail"), false
	}
	return nil, verRctSemanticsSimple(rctsign) && verRctNonSemanticsSimple(rctsign)
}

// TlvRctSign (test helper of the original package): runs verRctSimple and only reports internal errors.
func TlvRctSign(rctsign *types.RctSig) error {
	if err, _ := TlvVerRctSimple(rctsign); err != nil {
		return fmt.Errorf("cgo TlvRctSign fail")
	}
	return nil
}

// ---------------------------------------------------------------------------------------------
// One-time ring signatures (crypto.cpp generate_ring_signature / check_ring_signature).
// The cgo wrapper hands the C code room for ONE signature element, so only rings of size 1 are usable
// (that is the only way the repository calls it: SHORT_RING_MEMBER_NUM = 1); other sizes are refused.
// Real Schnorr-style proof:  L = r*G + c*P,  R = r*Hp(P) + c*I,  c == Hs(prefix || L || R).

// GenerateRingSignature --
func GenerateRingSignature(prefix types.Hash, keyImage types.KeyImage, pks []types.PublicKey, sec types.SecretKey, secIndex uint) (*types.Signature, error) {
	if len(pks) == 0 {
		return nil, fmt.Errorf("pubkeys zero")
	}
	if len(pks) != 1 || secIndex != 0 {
		return nil, fmt.Errorf("x_generate_ring_signature")
	}
	if _, ok := decodePoint(keyImage); !ok {
		return nil, fmt.Errorf("x_generate_ring_signature") // C++: local_abort("invalid key image")
	}
	k := randScalar()
	a := encodePoint(new(edPoint).ScalarBaseMult(k))
	b := encodePoint(varTimeMul(k, hashToEC(pks[0])))
	c := hashToScalar(prefix[:], a[:], b[:])
	r := new(edScalar).Subtract(k, new(edScalar).Multiply(c, scReduce(sec)))
	return &types.Signature{C: scOut(c), R: scOut(r)}, nil
}

// CheckRingSignature true means RingSignature ok.
func CheckRingSignature(prefix types.Hash, keyImage types.KeyImage, pks []types.PublicKey, sig *types.Signature) bool {
	if len(pks) == 0 {
		panic("pubkeys zero")
	}
	if len(pks) != 1 {
		return false
	}
	I, ok := decodePoint(keyImage)
	if !ok {
		return false
	}
	if !scCheck(sig.C) || !scCheck(sig.R) {
		return false
	}
	P, ok := decodePoint(pks[0])
	if !ok {
		return false
	}
	c, r := scReduce(sig.C), scReduce(sig.R)
	a := encodePoint(lin2(r, c, P))
	b := encodePoint(lin2p(r, hashToEC(pks[0]), c, I))
	h := hashToScalar(prefix[:], a[:], b[:])
	return h.Equal(c) == 1
}

// ---------------------------------------------------------------------------------------------
// Bulletproof range proofs: IDEAL FUNCTIONALITY.
// The prover computes the real commitments (V[i] = INV_EIGHT*(mask_i*G + amount_i*H), mask_i =
// genCommitmentMask(sk_i), exactly the values the C++ library returns) and, instead of the inner-product
// argument, fills the proof with tags derived from keccak(domain || nbits || V): the tag chain is what the
// verifier recomputes. Like the C++ prover it does not refuse an out-of-range amount (it uses the low
// `nbits` bits and so produces a proof that cannot verify): the stand-in then derives the tags under a
// different domain, so verification fails. L and R have the real length log2(nbits) + log2(padded M).

const bpMaxOutputs = 16

func bpLog2(nbits int) int {
	if nbits == 128 {
		return 7
	}
	return 6
}

func bpPaddedLog(m int) int {
	logM := 0
	for (1 << uint(logM)) < m {
		logM++
	}
	return logM
}

func bpFill(bp *types.Bulletproof, nbits int, ok bool) {
	dom := []byte("verif/xcrypto/bulletproof/valid")
	if !ok {
		dom = []byte("verif/xcrypto/bulletproof/out-of-range")
	}
	var nb [2]byte
	binary.LittleEndian.PutUint16(nb[:], uint16(nbits))
	vcat := make([]byte, 0, 32*len(bp.V))
	for i := range bp.V {
		vcat = append(vcat, bp.V[i][:]...)
	}
	base := keccak(dom, nb[:], vcat)
	tag := func(label string, n int) types.Key {
		var ix [2]byte
		binary.LittleEndian.PutUint16(ix[:], uint16(n))
		return keccak(base[:], []byte(label), ix[:])
	}
	sc := func(label string) types.Key { return scOut(scReduce(tag(label, 0))) } // scalars of a real proof are reduced
	bp.A, bp.S, bp.T1, bp.T2 = tag("A", 0), tag("S", 0), tag("T1", 0), tag("T2", 0)
	bp.Taux, bp.Mu = sc("taux"), sc("mu")
	for i := range bp.L {
		bp.L[i] = tag("L", i)
		bp.R[i] = tag("R", i)
	}
	bp.Aa, bp.B, bp.T = sc("a"), sc("b"), sc("t")
}

func proveRangeBulletproof(amounts, sk types.KeyV, nbits int) (*types.Bulletproof, types.KeyV, types.KeyV, error) {
	fail := fmt.Errorf("tlv_proveRangeBulletproof internal error")
	m := len(amounts)
	if m != len(sk) || m == 0 || m > bpMaxOutputs {
		return nil, nil, nil, fail // "Invalid amounts/sk sizes" / "sv is empty" / "sv/gamma are too large"
	}
	inRange := true
	masks := make(types.KeyV, m)
	V := make(types.KeyV, m)
	for i := 0; i < m; i++ {
		if !scCheck(amounts[i]) {
			return nil, nil, nil, fail // "Invalid sv input" (is_reduced)
		}
		for b := nbits / 8; b < 32; b++ {
			if amounts[i][b] != 0 {
				inRange = false
			}
		}
		mask := genCommitmentMask(sk[i])
		masks[i] = scOut(mask)
		// V = (gamma*INV_EIGHT)*G + (sv*INV_EIGHT)*H
		V[i] = encodePoint(commit(new(edScalar).Multiply(mask, scInvEight), new(edScalar).Multiply(scReduce(amounts[i]), scInvEight)))
	}
	rounds := bpLog2(nbits) + bpPaddedLog(m)
	bp := &types.Bulletproof{V: V, L: make(types.KeyV, rounds), R: make(types.KeyV, rounds)}
	bpFill(bp, nbits, inRange)
	c := make(types.KeyV, m)
	copy(c, V)
	return bp, c, masks, nil
}

// nBulletproofAmounts is rct::n_bulletproof_amounts (0 = malformed).
func nBulletproofAmounts(bp *types.Bulletproof) int {
	if len(bp.L) < 6 || len(bp.L) != len(bp.R) || len(bp.L) > 6+4 {
		return 0
	}
	max := 1 << uint(len(bp.L)-6)
	if len(bp.V) > max || len(bp.V)*2 <= max || len(bp.V) == 0 {
		return 0
	}
	return len(bp.V)
}

func verBulletproof(bp *types.Bulletproof, nbits int) bool {
	m := len(bp.V)
	if m == 0 || m > bpMaxOutputs || len(bp.L) != len(bp.R) || len(bp.L) == 0 {
		return false
	}
	if len(bp.L) != bpLog2(nbits)+bpPaddedLog(m) {
		return false // "Proof is not the expected size"
	}
	for _, k := range []*types.Key{&bp.Taux, &bp.Mu, &bp.Aa, &bp.B, &bp.T} {
		if !scCheck(*k) {
			return false // "Input scalar not in range"
		}
	}
	for i := range bp.V {
		if _, ok := decodePoint(bp.V[i]); !ok {
			return false
		}
	}
	want := types.Bulletproof{V: bp.V, L: make(types.KeyV, len(bp.L)), R: make(types.KeyV, len(bp.R))}
	bpFill(&want, nbits, true)
	if want.A != bp.A || want.S != bp.S || want.T1 != bp.T1 || want.T2 != bp.T2 ||
		want.Taux != bp.Taux || want.Mu != bp.Mu || want.Aa != bp.Aa || want.B != bp.B || want.T != bp.T {
		return false
	}
	for i := range bp.L {
		if want.L[i] != bp.L[i] || want.R[i] != bp.R[i] {
			return false
		}
	}
	return true
}

func bpFitsTlv(bp *types.Bulletproof) bool {
	return len(bp.V)*32 <= tlvMaxLen && len(bp.L)*32 <= tlvMaxLen && len(bp.R)*32 <= tlvMaxLen && bp.TlvSize() <= tlvMaxLen
}

// TlvProveRangeBulletproof: 64-bit range proof over the amounts (32-byte little-endian scalars) with
// commitment masks derived from sk. Returns (proof, C = proof.V, masks).
func TlvProveRangeBulletproof(amounts types.KeyV, sk types.KeyV) (b *types.Bulletproof, c types.KeyV, masks types.KeyV, err error) {
	return proveRangeBulletproof(amounts, sk, 64)
}

// TlvProveRangeBulletproof128: the 128-bit variant of the linkchain fork.
func TlvProveRangeBulletproof128(amounts types.KeyV, sk types.KeyV) (b *types.Bulletproof, c types.KeyV, masks types.KeyV, err error) {
	return proveRangeBulletproof(amounts, sk, 128)
}

// TlvVerBulletproof verifies a 64-bit proof for the commitments bp.V.
func TlvVerBulletproof(bp *types.Bulletproof) (bool, error) {
	if !bpFitsTlv(bp) {
		return false, fmt.Errorf("cgo TlvVerBulletproof internal fail")
	}
	return verBulletproof(bp, 64), nil
}

// TlvVerBulletproof128 verifies a 128-bit proof for the commitments bp.V.
func TlvVerBulletproof128(bp *types.Bulletproof) (bool, error) {
	if !bpFitsTlv(bp) {
		return false, fmt.Errorf("cgo TlvVerBulletproof internal fail")
	}
	return verBulletproof(bp, 128), nil
}

// ---------------------------------------------------------------------------------------------
// test helpers of the original package (round trips through the C++ TLV codec)

// TlvKeyVTest: a KeyV of `keysie` fixed keys survives the TLV round trip.
func TlvKeyVTest(keysie int) error {
	cKeyV := make(types.KeyV, keysie)
	for i := 0; i < keysie; i++ {
		cKeyV[i] = types.Key{121, 201, 148, 20, 165, 225, 8, 37, 186, 117, 239, 0, 3, 148, 76, 241, 86, 55, 38, 123, 182, 35, 115, 126, 76, 56, 186, 191, 23, 80, 177, 49}
	}
	data := make([]byte, cKeyV.TlvSize())
	if _, err := cKeyV.TlvEncode(data); err != nil {
		return err
	}
	_ = data[0] // the original takes &data[0]
	to := types.KeyV{}
	to.TlvDecode(data)
	if !to.IsEqual(&cKeyV) {
		return fmt.Errorf("not equal")
	}
	return nil
}

// TlvRctsigForTest: encode, (C++ decode+encode), decode.
func TlvRctsigForTest(rctsign *types.RctSig) (*types.RctSig, error) {
	data := make([]byte, rctsign.TlvSize())
	if _, err := rctsign.TlvEncode(data); err != nil {
		return nil, err
	}
	if !rctSigFitsTlv(rctsign) {
		return nil, fmt.Errorf("cgo test_tlv_rctsig fail")
	}
	to := &types.RctSig{}
	to.TlvDecode(data)
	return to, nil
}
