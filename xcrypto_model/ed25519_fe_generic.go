//go:build go1.21

// Code vendored by vendor_ed25519.sh from Go go1.23.5 crypto/internal/edwards25519/field/fe_generic.go; DO NOT EDIT.
// Flattened into package xcrypto (identifiers renamed, see vendor_ed25519.sh); arithmetic unchanged.
// Licence: BSD-3-Clause, see LICENSE-go.txt in this directory.

// Copyright (c) 2017 The Go Authors. All rights reserved.
// Use of this source code is governed by a BSD-style
// license that can be found in the LICENSE file.

package xcrypto

import "math/bits"

// uint128 holds a 128-bit number as two 64-bit limbs, for use with the
// bits.Mul64 and bits.Add64 intrinsics.
type uint128 struct {
	lo, hi uint64
}

// mul64 returns a * b.
func mul64(a, b uint64) uint128 {
	hi, lo := bits.Mul64(a, b)
	return uint128{lo, hi}
}

// addMul64 returns v + a * b.
func addMul64(v uint128, a, b uint64) uint128 {
	hi, lo := bits.Mul64(a, b)
	lo, c := bits.Add64(lo, v.lo, 0)
	hi, _ = bits.Add64(hi, v.hi, c)
	return uint128{lo, hi}
}

// shiftRightBy51 returns a >> 51. a is assumed to be at most 115 bits.
func shiftRightBy51(a uint128) uint64 {
	return (a.hi << (64 - 51)) | (a.lo >> 51)
}

func feMulGeneric(v, a, b *feElement) {
	a0 := a.l0
	a1 := a.l1
	a2 := a.l2
	a3 := a.l3
	a4 := a.l4

	b0 := b.l0
	b1 := b.l1
	b2 := b.l2
	b3 := b.l3
	b4 := b.l4

	// Limb multiplication works like pen-and-paper columnar multiplication, but
	// with 51-bit limbs instead of digits.
	//
	//                          a4   a3   a2   a1   a0  x
	//                          b4   b3   b2   b1   b0  =
	//                         ------------------------
	//                        a4b0 a3b0 a2b0 a1b0 a0b0  +
	//                   a4b1 a3b1 a2b1 a1b1 a0b1       +
	//              a4b2 a3b2 a2b2 a1b2 a0b2            +
	//         a4b3 a3b3 a2b3 a1b3 a0b3                 +
	//    a4b4 a3b4 a2b4 a1b4 a0b4                      =
	//   ----------------------------------------------
	//      r8   r7   r6   r5   r4   r3   r2   r1   r0
	//
	// We can then use the reduction identity (a * 2²⁵⁵ + b = a * 19 + b) to
	// reduce the limbs that would overflow 255 bits. r5 * 2²⁵⁵ becomes 19 * r5,
	// r6 * 2³⁰⁶ becomes 19 * r6 * 2⁵¹, etc.
	//
	// Reduction can be carried out simultaneously to multiplication. For
	// example, we do not compute r5: whenever the result of a multiplication
	// belongs to r5, like a1b4, we multiply it by 19 and add the result to r0.
	//
	//            a4b0    a3b0    a2b0    a1b0    a0b0  +
	//            a3b1    a2b1    a1b1    a0b1 19×a4b1  +
	//            a2b2    a1b2    a0b2 19×a4b2 19×a3b2  +
	//            a1b3    a0b3 19×a4b3 19×a3b3 19×a2b3  +
	//            a0b4 19×a4b4 19×a3b4 19×a2b4 19×a1b4  =
	//           --------------------------------------
	//              r4      r3      r2      r1      r0
	//
	// Finally we add up the columns into wide, overlapping limbs.

	a1_19 := a1 * 19
	a2_19 := a2 * 19
	a3_19 := a3 * 19
	a4_19 := a4 * 19

	// r0 = a0×b0 + 19×(a1×b4 + a2×b3 + a3×b2 + a4×b1)
	r0 := mul64(a0, b0)
	r0 = addMul64(r0, a1_19, b4)
	r0 = addMul64(r0, a2_19, b3)
	r0 = addMul64(r0, a3_19, b2)
	r0 = addMul64(r0, a4_19, b1)

	// r1 = a0×b1 + a1×b0 + 19×(a2×b4 + a3×b3 + a4×b2)
	r1 := mul64(a0, b1)
	r1 = addMul64(r1, a1, b0)
	r1 = addMul64(r1, a2_19, b4)
	r1 = addMul64(r1, a3_19, b3)
	r1 = addMul64(r1, a4_19, b2)

	// r2 = a0×b2 + a1×b1 + a2×b0 + 19×(a3×b4 + a4×b3)
	r2 := mul64(a0, b2)
	r2 = addMul64(r2, a1, b1)
	r2 = addMul64(r2, a2, b0)
	r2 = addMul64(r2, a3_19, b4)
	r2 = addMul64(r2, a4_19, b3)

	// r3 = a0×b3 + a1×b2 + a2×b1 + a3×b0 + 19×a4×b4
	r3 := mul64(a0, b3)
	r3 = addMul64(r3, a1, b2)
	r3 = addMul64(r3, a2, b1)
	r3 = addMul64(r3, a3, b0)
	r3 = addMul64(r3, a4_19, b4)

	// r4 = a0×b4 + a1×b3 + a2×b2 + a3×b1 + a4×b0
	r4 := mul64(a0, b4)
	r4 = addMul64(r4, a1, b3)
	r4 = addMul64(r4, a2, b2)
	r4 = addMul64(r4, a3, b1)
	r4 = addMul64(r4, a4, b0)

	// After the multiplication, we need to reduce (carry) the five coefficients
	// to obtain a result with limbs that are at most slightly larger than 2⁵¹,
	// to respect the feElement invariant.
	//
	// Overall, the reduction works the same as carryPropagate, except with
	// wider inputs: we take the carry for each coefficient by shifting it right
	// by 51, and add it to the limb above it. The top carry is multiplied by 19
	// according to the reduction identity and added to the lowest limb.
	//
	// The largest coefficient (r0) will be at most 111 bits, which guarantees
	// that all carries are at most 111 - 51 = 60 bits, which fits in a uint64.
	//
	//     r0 = a0×b0 + 19×(a1×b4 + a2×b3 + a3×b2 + a4×b1)
	//     r0 < 2⁵²×2⁵² + 19×(2⁵²×2⁵² + 2⁵²×2⁵² + 2⁵²×2⁵² + 2⁵²×2⁵²)
	//     r0 < (1 + 19 × 4) × 2⁵² × 2⁵²
	//     r0 < 2⁷ × 2⁵² × 2⁵²
	//     r0 < 2¹¹¹
	//
	// Moreover, the top coefficient (r4) is at most 107 bits, so c4 is at most
	// 56 bits, and c4 * 19 is at most 61 bits, which again fits in a uint64 and
	// allows us to easily apply the reduction identity.
	//
	//     r4 = a0×b4 + a1×b3 + a2×b2 + a3×b1 + a4×b0
	//     r4 < 5 × 2⁵² × 2⁵²
	//     r4 < 2¹⁰⁷
	//

	c0 := shiftRightBy51(r0)
	c1 := shiftRightBy51(r1)
	c2 := shiftRightBy51(r2)
	c3 := shiftRightBy51(r3)
	c4 := shiftRightBy51(r4)

	rr0 := r0.lo&maskLow51Bits + c4*19
	rr1 := r1.lo&maskLow51Bits + c0
	rr2 := r2.lo&maskLow51Bits + c1
	rr3 := r3.lo&maskLow51Bits + c2
	rr4 := r4.lo&maskLow51Bits + c3

	// Now all coefficients fit into 64-bit registers but are still too large to
	// be passed around as an feElement. We therefore do one last carry chain,
	// where the carries will be small enough to fit in the wiggle room above 2⁵¹.
	*v = feElement{rr0, rr1, rr2, rr3, rr4}
	v.carryPropagate()
}

func feSquareGeneric(v, a *feElement) {
	l0 := a.l0
	l1 := a.l1
	l2 := a.l2
	l3 := a.l3
	l4 := a.l4

	// Squaring works precisely like multiplication above, but thanks to its
	// symmetry we get to group a few terms together.
	//
	//                          l4   l3   l2   l1   l0  x
	//                          l4   l3   l2   l1   l0  =
	//                         ------------------------
	//                        l4l0 l3l0 l2l0 l1l0 l0l0  +
	//                   l4l1 l3l1 l2l1 l1l1 l0l1       +
	//              l4l2 l3l2 l2l2 l1l2 l0l2            +
	//         l4l3 l3l3 l2l3 l1l3 l0l3                 +
	//    l4l4 l3l4 l2l4 l1l4 l0l4                      =
	//   ----------------------------------------------
	//      r8   r7   r6   r5   r4   r3   r2   r1   r0
	//
	//            l4l0    l3l0    l2l0    l1l0    l0l0  +
	//            l3l1    l2l1    l1l1    l0l1 19×l4l1  +
	//            l2l2    l1l2    l0l2 19×l4l2 19×l3l2  +
	//            l1l3    l0l3 19×l4l3 19×l3l3 19×l2l3  +
	//            l0l4 19×l4l4 19×l3l4 19×l2l4 19×l1l4  =
	//           --------------------------------------
	//              r4      r3      r2      r1      r0
	//
	// With precomputed 2×, 19×, and 2×19× terms, we can compute each limb with
	// only three Mul64 and four Add64, instead of five and eight.

	l0_2 := l0 * 2
	l1_2 := l1 * 2

	l1_38 := l1 * 38
	l2_38 := l2 * 38
	l3_38 := l3 * 38

	l3_19 := l3 * 19
	l4_19 := l4 * 19

	// r0 = l0×l0 + 19×(l1×l4 + l2×l3 + l3×l2 + l4×l1) = l0×l0 + 19×2×(l1×l4 + l2×l3)
	r0 := mul64(l0, l0)
	r0 = addMul64(r0, l1_38, l4)
	r0 = addMul64(r0, l2_38, l3)

	// r1 = l0×l1 + l1×l0 + 19×(l2×l4 + l3×l3 + l4×l2) = 2×l0×l1 + 19×2×l2×l4 + 19×l3×l3
	r1 := mul64(l0_2, l1)
	r1 = addMul64(r1, l2_38, l4)
	r1 = addMul64(r1, l3_19, l3)

	// r2 = l0×l2 + l1×l1 + l2×l0 + 19×(l3×l4 + l4×l3) = 2×l0×l2 + l1×l1 + 19×2×l3×l4
	r2 := mul64(l0_2, l2)
	r2 = addMul64(r2, l1, l1)
	r2 = addMul64(r2, l3_38, l4)

	// r3 = l0×l3 + l1×l2 + l2×l1 + l3×l0 + 19×l4×l4 = 2×l0×l3 + 2×l1×l2 + 19×l4×l4
	r3 := mul64(l0_2, l3)
	r3 = addMul64(r3, l1_2, l2)
	r3 = addMul64(r3, l4_19, l4)

	// r4 = l0×l4 + l1×l3 + l2×l2 + l3×l1 + l4×l0 = 2×l0×l4 + 2×l1×l3 + l2×l2
	r4 := mul64(l0_2, l4)
	r4 = addMul64(r4, l1_2, l3)
	r4 = addMul64(r4, l2, l2)

	c0 := shiftRightBy51(r0)
	c1 := shiftRightBy51(r1)
	c2 := shiftRightBy51(r2)
	c3 := shiftRightBy51(r3)
	c4 := shiftRightBy51(r4)

	rr0 := r0.lo&maskLow51Bits + c4*19
	rr1 := r1.lo&maskLow51Bits + c0
	rr2 := r2.lo&maskLow51Bits + c1
	rr3 := r3.lo&maskLow51Bits + c2
	rr4 := r4.lo&maskLow51Bits + c3

	*v = feElement{rr0, rr1, rr2, rr3, rr4}
	v.carryPropagate()
}

// carryPropagateGeneric brings the limbs below 52 bits by applying the reduction
// identity (a * 2²⁵⁵ + b = a * 19 + b) to the l4 carry.
func (v *feElement) carryPropagateGeneric() *feElement {
	c0 := v.l0 >> 51
	c1 := v.l1 >> 51
	c2 := v.l2 >> 51
	c3 := v.l3 >> 51
	c4 := v.l4 >> 51

	// c4 is at most 64 - 51 = 13 bits, so c4*19 is at most 18 bits, and
	// the final l0 will be at most 52 bits. Similarly for the rest.
	v.l0 = v.l0&maskLow51Bits + c4*19
	v.l1 = v.l1&maskLow51Bits + c0
	v.l2 = v.l2&maskLow51Bits + c1
	v.l3 = v.l3&maskLow51Bits + c2
	v.l4 = v.l4&maskLow51Bits + c3

	return v
}
