//go:build go1.21

// Glue replacing the per-architecture files of crypto/internal/edwards25519/field (fe_amd64*.go,
// fe_arm64*.go): always use the portable generic code. Licence: BSD-3-Clause, see LICENSE-go.txt.

package xcrypto

func feMul(v, x, y *feElement) { feMulGeneric(v, x, y) }

func feSquare(v, x *feElement) { feSquareGeneric(v, x) }

func (v *feElement) carryPropagate() *feElement { return v.carryPropagateGeneric() }
