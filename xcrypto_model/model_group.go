//go:build go1.21

// Group layer of the xcrypto stand-in: REAL mathematics on ed25519 with Monero conventions.
// Every function mirrors the C++ routine named in its comment (monero src/ringct/rctOps.cpp,
// src/crypto/crypto.cpp, src/device/device_default.cpp).

package xcrypto

import (
	"encoding/binary"
	"fmt"

	"github.com/lianxiangcloud/linkchain/libs/cryptonote/types"
)

var errBadPoint = fmt.Errorf("xcrypto stand-in: invalid point encoding (the C++ library throws here)")

// ---------------------------------------------------------------------------------------------
// rctOps

// ScalarmultKey is rct::scalarmultKey: a*P, a taken as a plain 256-bit integer (no reduction mod L).
// The C++ code throws when P does not decode; the stand-in returns an error and the zero key.
func ScalarmultKey(p, a types.Key) (ret types.Key, err error) {
	P, ok := decodePoint(p)
	if !ok {
		return ret, errBadPoint
	}
	return encodePoint(mulExact(a, P)), nil
}

// ScalarmultBase is rct::scalarmultBase: a*G.
func ScalarmultBase(a types.Key) (ret types.Key) {
	return encodePoint(mulBase(a))
}

// SkGen is rct::skGen: a fresh non-zero scalar (here: from the deterministic generator, see VerifSetSeed).
func SkGen() (ret types.Key) {
	return scOut(randScalar())
}

// SkpkGen is rct::skpkGen: (sk, sk*G).
func SkpkGen() (sk types.Key, pk types.Key) {
	s := randScalar()
	return scOut(s), encodePoint(new(edPoint).ScalarBaseMult(s))
}

// ScalarmultH is rct::scalarmultH: a*H (H lies in the prime-order subgroup).
func ScalarmultH(a types.Key) (ret types.Key) {
	return encodePoint(varTimeMul(scReduce(a), ptH))
}

func commit(mask *edScalar, amount *edScalar) *edPoint {
	return new(edPoint).VarTimeDoubleScalarBaseMult(amount, ptH, mask) // amount*H + mask*G
}

// ZeroCommit is rct::zeroCommit: G + amount*H.
func ZeroCommit(amount types.Lk_amount) (ret types.Key, err error) {
	return encodePoint(commit(scFromUint64(1), scFromUint64(uint64(amount)))), nil
}

// GenC is rct::genC: a*G + amount*H.
func GenC(a types.Key, amount types.Lk_amount) (ret types.Key, err error) {
	return encodePoint(commit(scReduce(a), scFromUint64(uint64(amount)))), nil
}

// CheckKey is crypto::check_key: does the key decode (ge_frombytes_vartime) to a curve point.
func CheckKey(key types.PublicKey) bool {
	_, ok := decodePoint(key)
	return ok
}

// Scalarmult8 is rct::scalarmult8: 8*P.
func Scalarmult8(p types.Key) (ret types.Key, err error) {
	P, ok := decodePoint(p)
	if !ok {
		return ret, errBadPoint
	}
	return encodePoint(ptMul8(P)), nil
}

// ScAdd is sc_add: (a+b) mod L (inputs need not be reduced).
func ScAdd(a, b types.EcScalar) (ret types.Key) {
	return scOut(new(edScalar).Add(scReduce(a), scReduce(b)))
}

// ScSub is sc_sub: (a-b) mod L.
func ScSub(a, b types.EcScalar) (ret types.Key) {
	return scOut(new(edScalar).Subtract(scReduce(a), scReduce(b)))
}

// AddKeys is rct::addKeys(A,B): A+B.
func AddKeys(a, b types.Key) (ret types.Key, err error) {
	A, ok := decodePoint(a)
	if !ok {
		return ret, errBadPoint
	}
	B, ok := decodePoint(b)
	if !ok {
		return ret, errBadPoint
	}
	return encodePoint(A.Add(A, B)), nil
}

// AddKeys2 is rct::addKeys2: a*G + b*B.
func AddKeys2(a, b, B types.Key) (ret types.Key, err error) {
	P, ok := decodePoint(B)
	if !ok {
		return ret, errBadPoint
	}
	r := mulBase(a)
	return encodePoint(r.Add(r, mulExact(b, P))), nil
}

// TlvAddKeyV is rct::addKeys(keyV): the sum of the points. The cgo wrapper takes &data[0] of the encoded
// vector, i.e. it panics with an index-out-of-range on an empty vector; so does the stand-in.
func TlvAddKeyV(a types.KeyV) (sum types.Key, err error) {
	if len(a) == 0 {
		var data []byte
		_ = data[0] // same runtime panic as the original wrapper
	}
	if len(a)*types.COMMONLEN > tlvMaxLen {
		return sum, fmt.Errorf("xcrypto stand-in: KeyV exceeds the 16-bit TLV length")
	}
	acc := newIdentityPoint()
	for i := range a {
		P, ok := decodePoint(a[i])
		if !ok {
			return sum, errBadPoint
		}
		acc.Add(acc, P)
	}
	return encodePoint(acc), nil
}

// ---------------------------------------------------------------------------------------------
// crypto.cpp: keys, derivations, key images

// GenerateKeys is crypto::generate_keys(pub, sec, recovery_key, recover=true): sec = reduce32(recovery_key).
func GenerateKeys(recoverKey types.SecretKey) (sk types.SecretKey, pk types.PublicKey) {
	s := scReduce(recoverKey)
	return scOut(s), encodePoint(new(edPoint).ScalarBaseMult(s))
}

// SecretAdd is sc_add on secret keys.
func SecretAdd(a, b types.SecretKey) (r types.SecretKey) {
	return scOut(new(edScalar).Add(scReduce(a), scReduce(b)))
}

// SecretKeyToPublicKey is crypto::secret_key_to_public_key: fails unless sec is a canonical scalar.
func SecretKeyToPublicKey(sec types.SecretKey) (pub types.PublicKey, err error) {
	if !scCheck(sec) {
		return pub, fmt.Errorf("CGO x_secret_key_to_public_key fail")
	}
	return encodePoint(mulBase(sec)), nil
}

// GenerateKeyDerivation is crypto::generate_key_derivation: 8*(sec*pub).
func GenerateKeyDerivation(pub types.PublicKey, sec types.SecretKey) (der types.KeyDerivation, err error) {
	P, ok := decodePoint(pub)
	if !ok {
		return der, fmt.Errorf("CGO x_generate_key_derivation fail")
	}
	return encodePoint(ptMul8(mulExact(sec, P))), nil
}

func derivationScalar(derivation types.KeyDerivation, outIndex int) *edScalar {
	return hashToScalar(derivation[:], varint(uint64(outIndex)))
}

// DerivationToScalar is crypto::derivation_to_scalar: Hs(derivation || varint(index)).
func DerivationToScalar(derivation types.KeyDerivation, outIndex int) (res types.EcScalar, err error) {
	return scOut(derivationScalar(derivation, outIndex)), nil
}

// DerivePublicKey is crypto::derive_public_key: base + Hs(derivation||index)*G.
func DerivePublicKey(derivation types.KeyDerivation, outIndex int, pub types.PublicKey) (derPub types.PublicKey, err error) {
	P, ok := decodePoint(pub)
	if !ok {
		return derPub, fmt.Errorf("CGO x_derive_public_key fail")
	}
	return encodePoint(P.Add(P, new(edPoint).ScalarBaseMult(derivationScalar(derivation, outIndex)))), nil
}

// DeriveSecretKey is crypto::derive_secret_key: base + Hs(derivation||index) mod L.
func DeriveSecretKey(derivation types.KeyDerivation, outIndex int, sec types.SecretKey) (derSec types.SecretKey, err error) {
	return scOut(new(edScalar).Add(scReduce(sec), derivationScalar(derivation, outIndex))), nil
}

// DeriveSubaddressPublicKey is crypto::derive_subaddress_public_key: out_key - Hs(derivation||index)*G.
func DeriveSubaddressPublicKey(pub types.PublicKey, derivation types.KeyDerivation, outIndex int) (derPub types.PublicKey, err error) {
	P, ok := decodePoint(pub)
	if !ok {
		return derPub, fmt.Errorf("CGO x_derive_subadress_public_key fail")
	}
	return encodePoint(P.Subtract(P, new(edPoint).ScalarBaseMult(derivationScalar(derivation, outIndex)))), nil
}

// GenerateKeyImage is crypto::generate_key_image: sec * Hp(pub), Hp = hash_to_ec (the real Monero map).
func GenerateKeyImage(pub types.PublicKey, sec types.SecretKey) (ki types.KeyImage, err error) {
	return encodePoint(mulExact(sec, hashToEC(pub))), nil
}

// ---------------------------------------------------------------------------------------------
// sub-addresses (device_default.cpp). The C API takes ONE 32-bit index; it is the minor index of
// Monero's {major, minor} pair with major = 0 (see README: checked against the recorded address
// of wallet/wallet/key_test.go TestGetSubaddr).

func subaddressScalar(viewSec types.SecretKey, index uint32) *edScalar {
	var data [8 + 32 + 8]byte
	copy(data[:8], "SubAddr\x00")
	copy(data[8:40], viewSec[:])
	binary.LittleEndian.PutUint32(data[40:44], subaddrMajor(index))
	binary.LittleEndian.PutUint32(data[44:48], subaddrMinor(index))
	return hashToScalar(data[:])
}

func subaddrMajor(index uint32) uint32 { return 0 }
func subaddrMinor(index uint32) uint32 { return index }

// GetSubaddressSecretKey is get_subaddress_secret_key: m = Hs("SubAddr\0" || a || major || minor).
func GetSubaddressSecretKey(main types.SecretKey, index uint32) (sub types.SecretKey) {
	return scOut(subaddressScalar(main, index))
}

// GetSubaddress get sub public_key pair by index (panics on error like the original).
func GetSubaddress(keys *types.AccountKey, index uint32) (addr types.AccountAddress) {
	addr, err := TlvGetSubaddress(keys, index)
	if err != nil {
		panic(err)
	}
	return addr
}

// TlvGetSubaddress is get_subaddress: index 0 -> the main address; else D = B + m*G, C = a*D.
func TlvGetSubaddress(keys *types.AccountKey, index uint32) (addr types.AccountAddress, err error) {
	if index == 0 {
		return keys.Addr, nil
	}
	B, ok := decodePoint(keys.Addr.SpendPublicKey)
	if !ok {
		return addr, fmt.Errorf("cgo TlvGetSubaddress internal fail")
	}
	D := B.Add(B, new(edPoint).ScalarBaseMult(subaddressScalar(keys.ViewSKey, index)))
	addr.SpendPublicKey = encodePoint(D)
	addr.ViewPublicKey = encodePoint(mulExact(keys.ViewSKey, D))
	return addr, nil
}

// ---------------------------------------------------------------------------------------------
// mnemonic words: the Monero word list is not in the tree, so these are a plain invertible stand-in:
// 16 words of 4 hex digits (the key, 2 bytes per word) + 1 checksum word (first 2 bytes of keccak(key)).

// BytesToWords convert recover_key to words (stand-in format, see above).
func BytesToWords(sec types.SecretKey, lang string) (string, error) {
	const hexd = "0123456789abcdef"
	ck := keccak(sec[:])
	out := make([]byte, 0, 17*5)
	put := func(a, b byte) {
		if len(out) > 0 {
			out = append(out, ' ')
		}
		out = append(out, hexd[a>>4], hexd[a&15], hexd[b>>4], hexd[b&15])
	}
	for i := 0; i < 32; i += 2 {
		put(sec[i], sec[i+1])
	}
	put(ck[0], ck[1])
	return string(out), nil
}

// WordsToBytes convert words to recover_key (inverse of BytesToWords; anything else is an error).
func WordsToBytes(words string) (sec types.SecretKey, err error) {
	bad := fmt.Errorf("CGO x_words_to_bytes fail")
	if len(words) != 17*5-1 {
		return sec, bad
	}
	nib := func(c byte) (byte, bool) {
		switch {
		case c >= '0' && c <= '9':
			return c - '0', true
		case c >= 'a' && c <= 'f':
			return c - 'a' + 10, true
		}
		return 0, false
	}
	var raw [34]byte
	for w := 0; w < 17; w++ {
		o := w * 5
		if w > 0 && words[o-1] != ' ' {
			return types.SecretKey{}, bad
		}
		for k := 0; k < 2; k++ {
			hi, ok1 := nib(words[o+2*k])
			lo, ok2 := nib(words[o+2*k+1])
			if !ok1 || !ok2 {
				return types.SecretKey{}, bad
			}
			raw[2*w+k] = hi<<4 | lo
		}
	}
	copy(sec[:], raw[:32])
	ck := keccak(sec[:])
	if raw[32] != ck[0] || raw[33] != ck[1] {
		return types.SecretKey{}, bad
	}
	return sec, nil
}
