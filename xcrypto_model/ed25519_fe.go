//go:build go1.21

// Code vendored by vendor_ed25519.sh from Go go1.23.5 crypto/internal/edwards25519/field/fe.go; DO NOT EDIT.
// Flattened into package xcrypto (identifiers renamed, see vendor_ed25519.sh); arithmetic unchanged.
// Licence: BSD-3-Clause, see LICENSE-go.txt in this directory.

// Copyright (c) 2017 The Go Authors. All rights reserved.
// Use of this source code is governed by a BSD-style
// license that can be found in the LICENSE file.

// Package field implements fast arithmetic modulo 2^255-19.
package xcrypto

import (
	"crypto/subtle"
	"encoding/binary"
	"errors"
	"math/bits"
)

// feElement represents an element of the field GF(2^255-19). Note that this
// is not a cryptographically secure group, and should only be used to interact
// with edwards25519.edPoint coordinates.
//
// This type works similarly to math/big.Int, and all arguments and receivers
// are allowed to alias.
//
// The zero value is a valid zero element.
type feElement struct {
	// An element t represents the integer
	//     t.l0 + t.l1*2^51 + t.l2*2^102 + t.l3*2^153 + t.l4*2^204
	//
	// Between operations, all limbs are expected to be lower than 2^52.
	l0 uint64
	l1 uint64
	l2 uint64
	l3 uint64
	l4 uint64
}

const maskLow51Bits uint64 = (1 << 51) - 1

var feZero = &feElement{0, 0, 0, 0, 0}

// Zero sets v = 0, and returns v.
func (v *feElement) Zero() *feElement {
	*v = *feZero
	return v
}

var feOne = &feElement{1, 0, 0, 0, 0}

// One sets v = 1, and returns v.
func (v *feElement) One() *feElement {
	*v = *feOne
	return v
}

// reduce reduces v modulo 2^255 - 19 and returns it.
func (v *feElement) reduce() *feElement {
	v.carryPropagate()

	// After the light reduction we now have a field element representation
	// v < 2^255 + 2^13 * 19, but need v < 2^255 - 19.

	// If v >= 2^255 - 19, then v + 19 >= 2^255, which would overflow 2^255 - 1,
	// generating a carry. That is, c will be 0 if v < 2^255 - 19, and 1 otherwise.
	c := (v.l0 + 19) >> 51
	c = (v.l1 + c) >> 51
	c = (v.l2 + c) >> 51
	c = (v.l3 + c) >> 51
	c = (v.l4 + c) >> 51

	// If v < 2^255 - 19 and c = 0, this will be a no-op. Otherwise, it's
	// effectively applying the reduction identity to the carry.
	v.l0 += 19 * c

	v.l1 += v.l0 >> 51
	v.l0 = v.l0 & maskLow51Bits
	v.l2 += v.l1 >> 51
	v.l1 = v.l1 & maskLow51Bits
	v.l3 += v.l2 >> 51
	v.l2 = v.l2 & maskLow51Bits
	v.l4 += v.l3 >> 51
	v.l3 = v.l3 & maskLow51Bits
	// no additional carry
	v.l4 = v.l4 & maskLow51Bits

	return v
}

// Add sets v = a + b, and returns v.
func (v *feElement) Add(a, b *feElement) *feElement {
	v.l0 = a.l0 + b.l0
	v.l1 = a.l1 + b.l1
	v.l2 = a.l2 + b.l2
	v.l3 = a.l3 + b.l3
	v.l4 = a.l4 + b.l4
	// Using the generic implementation here is actually faster than the
	// assembly. Probably because the body of this function is so simple that
	// the compiler can figure out better optimizations by inlining the carry
	// propagation.
	return v.carryPropagateGeneric()
}

// Subtract sets v = a - b, and returns v.
func (v *feElement) Subtract(a, b *feElement) *feElement {
	// We first add 2 * p, to guarantee the subtraction won't underflow, and
	// then subtract b (which can be up to 2^255 + 2^13 * 19).
	v.l0 = (a.l0 + 0xFFFFFFFFFFFDA) - b.l0
	v.l1 = (a.l1 + 0xFFFFFFFFFFFFE) - b.l1
	v.l2 = (a.l2 + 0xFFFFFFFFFFFFE) - b.l2
	v.l3 = (a.l3 + 0xFFFFFFFFFFFFE) - b.l3
	v.l4 = (a.l4 + 0xFFFFFFFFFFFFE) - b.l4
	return v.carryPropagate()
}

// Negate sets v = -a, and returns v.
func (v *feElement) Negate(a *feElement) *feElement {
	return v.Subtract(feZero, a)
}

// Invert sets v = 1/z mod p, and returns v.
//
// If z == 0, Invert returns v = 0.
func (v *feElement) Invert(z *feElement) *feElement {
	// Inversion is implemented as exponentiation with exponent p − 2. It uses the
	// same sequence of 255 squarings and 11 multiplications as [Curve25519].
	var z2, z9, z11, z2_5_0, z2_10_0, z2_20_0, z2_50_0, z2_100_0, t feElement

	z2.Square(z)             // 2
	t.Square(&z2)            // 4
	t.Square(&t)             // 8
	z9.Multiply(&t, z)       // 9
	z11.Multiply(&z9, &z2)   // 11
	t.Square(&z11)           // 22
	z2_5_0.Multiply(&t, &z9) // 31 = 2^5 - 2^0

	t.Square(&z2_5_0) // 2^6 - 2^1
	for i := 0; i < 4; i++ {
		t.Square(&t) // 2^10 - 2^5
	}
	z2_10_0.Multiply(&t, &z2_5_0) // 2^10 - 2^0

	t.Square(&z2_10_0) // 2^11 - 2^1
	for i := 0; i < 9; i++ {
		t.Square(&t) // 2^20 - 2^10
	}
	z2_20_0.Multiply(&t, &z2_10_0) // 2^20 - 2^0

	t.Square(&z2_20_0) // 2^21 - 2^1
	for i := 0; i < 19; i++ {
		t.Square(&t) // 2^40 - 2^20
	}
	t.Multiply(&t, &z2_20_0) // 2^40 - 2^0

	t.Square(&t) // 2^41 - 2^1
	for i := 0; i < 9; i++ {
		t.Square(&t) // 2^50 - 2^10
	}
	z2_50_0.Multiply(&t, &z2_10_0) // 2^50 - 2^0

	t.Square(&z2_50_0) // 2^51 - 2^1
	for i := 0; i < 49; i++ {
		t.Square(&t) // 2^100 - 2^50
	}
	z2_100_0.Multiply(&t, &z2_50_0) // 2^100 - 2^0

	t.Square(&z2_100_0) // 2^101 - 2^1
	for i := 0; i < 99; i++ {
		t.Square(&t) // 2^200 - 2^100
	}
	t.Multiply(&t, &z2_100_0) // 2^200 - 2^0

	t.Square(&t) // 2^201 - 2^1
	for i := 0; i < 49; i++ {
		t.Square(&t) // 2^250 - 2^50
	}
	t.Multiply(&t, &z2_50_0) // 2^250 - 2^0

	t.Square(&t) // 2^251 - 2^1
	t.Square(&t) // 2^252 - 2^2
	t.Square(&t) // 2^253 - 2^3
	t.Square(&t) // 2^254 - 2^4
	t.Square(&t) // 2^255 - 2^5

	return v.Multiply(&t, &z11) // 2^255 - 21
}

// Set sets v = a, and returns v.
func (v *feElement) Set(a *feElement) *feElement {
	*v = *a
	return v
}

// SetBytes sets v to x, where x is a 32-byte little-endian encoding. If x is
// not of the right length, SetBytes returns nil and an error, and the
// receiver is unchanged.
//
// Consistent with RFC 7748, the most significant bit (the high bit of the
// last byte) is ignored, and non-canonical values (2^255-19 through 2^255-1)
// are accepted. Note that this is laxer than specified by RFC 8032, but
// consistent with most Ed25519 implementations.
func (v *feElement) SetBytes(x []byte) (*feElement, error) {
	if len(x) != 32 {
		return nil, errors.New("edwards25519: invalid field element input size")
	}

	// Bits 0:51 (bytes 0:8, bits 0:64, shift 0, mask 51).
	v.l0 = binary.LittleEndian.Uint64(x[0:8])
	v.l0 &= maskLow51Bits
	// Bits 51:102 (bytes 6:14, bits 48:112, shift 3, mask 51).
	v.l1 = binary.LittleEndian.Uint64(x[6:14]) >> 3
	v.l1 &= maskLow51Bits
	// Bits 102:153 (bytes 12:20, bits 96:160, shift 6, mask 51).
	v.l2 = binary.LittleEndian.Uint64(x[12:20]) >> 6
	v.l2 &= maskLow51Bits
	// Bits 153:204 (bytes 19:27, bits 152:216, shift 1, mask 51).
	v.l3 = binary.LittleEndian.Uint64(x[19:27]) >> 1
	v.l3 &= maskLow51Bits
	// Bits 204:255 (bytes 24:32, bits 192:256, shift 12, mask 51).
	// Note: not bytes 25:33, shift 4, to avoid overread.
	v.l4 = binary.LittleEndian.Uint64(x[24:32]) >> 12
	v.l4 &= maskLow51Bits

	return v, nil
}

// Bytes returns the canonical 32-byte little-endian encoding of v.
func (v *feElement) Bytes() []byte {
	// This function is outlined to make the allocations inline in the caller
	// rather than happen on the heap.
	var out [32]byte
	return v.bytes(&out)
}

func (v *feElement) bytes(out *[32]byte) []byte {
	t := *v
	t.reduce()

	var buf [8]byte
	for i, l := range [5]uint64{t.l0, t.l1, t.l2, t.l3, t.l4} {
		bitsOffset := i * 51
		binary.LittleEndian.PutUint64(buf[:], l<<uint(bitsOffset%8))
		for i, bb := range buf {
			off := bitsOffset/8 + i
			if off >= len(out) {
				break
			}
			out[off] |= bb
		}
	}

	return out[:]
}

// Equal returns 1 if v and u are equal, and 0 otherwise.
func (v *feElement) Equal(u *feElement) int {
	sa, sv := u.Bytes(), v.Bytes()
	return subtle.ConstantTimeCompare(sa, sv)
}

// mask64Bits returns 0xffffffff if cond is 1, and 0 otherwise.
func mask64Bits(cond int) uint64 { return ^(uint64(cond) - 1) }

// Select sets v to a if cond == 1, and to b if cond == 0.
func (v *feElement) Select(a, b *feElement, cond int) *feElement {
	m := mask64Bits(cond)
	v.l0 = (m & a.l0) | (^m & b.l0)
	v.l1 = (m & a.l1) | (^m & b.l1)
	v.l2 = (m & a.l2) | (^m & b.l2)
	v.l3 = (m & a.l3) | (^m & b.l3)
	v.l4 = (m & a.l4) | (^m & b.l4)
	return v
}

// Swap swaps v and u if cond == 1 or leaves them unchanged if cond == 0, and returns v.
func (v *feElement) Swap(u *feElement, cond int) {
	m := mask64Bits(cond)
	t := m & (v.l0 ^ u.l0)
	v.l0 ^= t
	u.l0 ^= t
	t = m & (v.l1 ^ u.l1)
	v.l1 ^= t
	u.l1 ^= t
	t = m & (v.l2 ^ u.l2)
	v.l2 ^= t
	u.l2 ^= t
	t = m & (v.l3 ^ u.l3)
	v.l3 ^= t
	u.l3 ^= t
	t = m & (v.l4 ^ u.l4)
	v.l4 ^= t
	u.l4 ^= t
}

// IsNegative returns 1 if v is negative, and 0 otherwise.
func (v *feElement) IsNegative() int {
	return int(v.Bytes()[0] & 1)
}

// Absolute sets v to |u|, and returns v.
func (v *feElement) Absolute(u *feElement) *feElement {
	return v.Select(new(feElement).Negate(u), u, u.IsNegative())
}

// Multiply sets v = x * y, and returns v.
func (v *feElement) Multiply(x, y *feElement) *feElement {
	feMul(v, x, y)
	return v
}

// Square sets v = x * x, and returns v.
func (v *feElement) Square(x *feElement) *feElement {
	feSquare(v, x)
	return v
}

// Mult32 sets v = x * y, and returns v.
func (v *feElement) Mult32(x *feElement, y uint32) *feElement {
	x0lo, x0hi := mul51(x.l0, y)
	x1lo, x1hi := mul51(x.l1, y)
	x2lo, x2hi := mul51(x.l2, y)
	x3lo, x3hi := mul51(x.l3, y)
	x4lo, x4hi := mul51(x.l4, y)
	v.l0 = x0lo + 19*x4hi // carried over per the reduction identity
	v.l1 = x1lo + x0hi
	v.l2 = x2lo + x1hi
	v.l3 = x3lo + x2hi
	v.l4 = x4lo + x3hi
	// The hi portions are going to be only 32 bits, plus any previous excess,
	// so we can skip the carry propagation.
	return v
}

// mul51 returns lo + hi * 2⁵¹ = a * b.
func mul51(a uint64, b uint32) (lo uint64, hi uint64) {
	mh, ml := bits.Mul64(a, uint64(b))
	lo = ml & maskLow51Bits
	hi = (mh << 13) | (ml >> 51)
	return
}

// Pow22523 set v = x^((p-5)/8), and returns v. (p-5)/8 is 2^252-3.
func (v *feElement) Pow22523(x *feElement) *feElement {
	var t0, t1, t2 feElement

	t0.Square(x)             // x^2
	t1.Square(&t0)           // x^4
	t1.Square(&t1)           // x^8
	t1.Multiply(x, &t1)      // x^9
	t0.Multiply(&t0, &t1)    // x^11
	t0.Square(&t0)           // x^22
	t0.Multiply(&t1, &t0)    // x^31
	t1.Square(&t0)           // x^62
	for i := 1; i < 5; i++ { // x^992
		t1.Square(&t1)
	}
	t0.Multiply(&t1, &t0)     // x^1023 -> 1023 = 2^10 - 1
	t1.Square(&t0)            // 2^11 - 2
	for i := 1; i < 10; i++ { // 2^20 - 2^10
		t1.Square(&t1)
	}
	t1.Multiply(&t1, &t0)     // 2^20 - 1
	t2.Square(&t1)            // 2^21 - 2
	for i := 1; i < 20; i++ { // 2^40 - 2^20
		t2.Square(&t2)
	}
	t1.Multiply(&t2, &t1)     // 2^40 - 1
	t1.Square(&t1)            // 2^41 - 2
	for i := 1; i < 10; i++ { // 2^50 - 2^10
		t1.Square(&t1)
	}
	t0.Multiply(&t1, &t0)     // 2^50 - 1
	t1.Square(&t0)            // 2^51 - 2
	for i := 1; i < 50; i++ { // 2^100 - 2^50
		t1.Square(&t1)
	}
	t1.Multiply(&t1, &t0)      // 2^100 - 1
	t2.Square(&t1)             // 2^101 - 2
	for i := 1; i < 100; i++ { // 2^200 - 2^100
		t2.Square(&t2)
	}
	t1.Multiply(&t2, &t1)     // 2^200 - 1
	t1.Square(&t1)            // 2^201 - 2
	for i := 1; i < 50; i++ { // 2^250 - 2^50
		t1.Square(&t1)
	}
	t0.Multiply(&t1, &t0)     // 2^250 - 1
	t0.Square(&t0)            // 2^251 - 2
	t0.Square(&t0)            // 2^252 - 4
	return v.Multiply(&t0, x) // 2^252 - 3 -> x^(2^252-3)
}

// sqrtM1 is 2^((p-1)/4), which squared is equal to -1 by Euler's Criterion.
var sqrtM1 = &feElement{1718705420411056, 234908883556509,
	2233514472574048, 2117202627021982, 765476049583133}

// SqrtRatio sets r to the non-negative square root of the ratio of u and v.
//
// If u/v is square, SqrtRatio returns r and 1. If u/v is not square, SqrtRatio
// sets r according to Section 4.3 of draft-irtf-cfrg-ristretto255-decaf448-00,
// and returns r and 0.
func (r *feElement) SqrtRatio(u, v *feElement) (R *feElement, wasSquare int) {
	t0 := new(feElement)

	// r = (u * v3) * (u * v7)^((p-5)/8)
	v2 := new(feElement).Square(v)
	uv3 := new(feElement).Multiply(u, t0.Multiply(v2, v))
	uv7 := new(feElement).Multiply(uv3, t0.Square(v2))
	rr := new(feElement).Multiply(uv3, t0.Pow22523(uv7))

	check := new(feElement).Multiply(v, t0.Square(rr)) // check = v * r^2

	uNeg := new(feElement).Negate(u)
	correctSignSqrt := check.Equal(u)
	flippedSignSqrt := check.Equal(uNeg)
	flippedSignSqrtI := check.Equal(t0.Multiply(uNeg, sqrtM1))

	rPrime := new(feElement).Multiply(rr, sqrtM1) // r_prime = SQRT_M1 * r
	// r = CT_SELECT(r_prime IF flipped_sign_sqrt | flipped_sign_sqrt_i ELSE r)
	rr.Select(rPrime, rr, flippedSignSqrt|flippedSignSqrtI)

	r.Absolute(rr) // Choose the nonnegative square root.
	return r, correctSignSqrt | flippedSignSqrt
}
