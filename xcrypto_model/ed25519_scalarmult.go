//go:build go1.21

// Code vendored by vendor_ed25519.sh from Go go1.23.5 crypto/internal/edwards25519/scalarmult.go; DO NOT EDIT.
// Flattened into package xcrypto (identifiers renamed, see vendor_ed25519.sh); arithmetic unchanged.
// Licence: BSD-3-Clause, see LICENSE-go.txt in this directory.

// Copyright (c) 2019 The Go Authors. All rights reserved.
// Use of this source code is governed by a BSD-style
// license that can be found in the LICENSE file.

package xcrypto

import "sync"

// basepointTable is a set of 32 affineLookupTables, where table i is generated
// from 256i * basepoint. It is precomputed the first time it's used.
func basepointTable() *[32]affineLookupTable {
	basepointTablePrecomp.initOnce.Do(func() {
		p := newGeneratorPoint()
		for i := 0; i < 32; i++ {
			basepointTablePrecomp.table[i].FromP3(p)
			for j := 0; j < 8; j++ {
				p.Add(p, p)
			}
		}
	})
	return &basepointTablePrecomp.table
}

var basepointTablePrecomp struct {
	table    [32]affineLookupTable
	initOnce sync.Once
}

// ScalarBaseMult sets v = x * B, where B is the canonical generator, and
// returns v.
//
// The scalar multiplication is done in constant time.
func (v *edPoint) ScalarBaseMult(x *edScalar) *edPoint {
	basepointTable := basepointTable()

	// Write x = sum(x_i * 16^i) so  x*B = sum( B*x_i*16^i )
	// as described in the Ed25519 paper
	//
	// Group even and odd coefficients
	// x*B     = x_0*16^0*B + x_2*16^2*B + ... + x_62*16^62*B
	//         + x_1*16^1*B + x_3*16^3*B + ... + x_63*16^63*B
	// x*B     = x_0*16^0*B + x_2*16^2*B + ... + x_62*16^62*B
	//    + 16*( x_1*16^0*B + x_3*16^2*B + ... + x_63*16^62*B)
	//
	// We use a lookup table for each i to get x_i*16^(2*i)*B
	// and do four doublings to multiply by 16.
	digits := x.signedRadix16()

	multiple := &affineCached{}
	tmp1 := &projP1xP1{}
	tmp2 := &projP2{}

	// Accumulate the odd components first
	v.Set(newIdentityPoint())
	for i := 1; i < 64; i += 2 {
		basepointTable[i/2].SelectInto(multiple, digits[i])
		tmp1.AddAffine(v, multiple)
		v.fromP1xP1(tmp1)
	}

	// Multiply by 16
	tmp2.FromP3(v)       // tmp2 =    v in P2 coords
	tmp1.Double(tmp2)    // tmp1 =  2*v in P1xP1 coords
	tmp2.FromP1xP1(tmp1) // tmp2 =  2*v in P2 coords
	tmp1.Double(tmp2)    // tmp1 =  4*v in P1xP1 coords
	tmp2.FromP1xP1(tmp1) // tmp2 =  4*v in P2 coords
	tmp1.Double(tmp2)    // tmp1 =  8*v in P1xP1 coords
	tmp2.FromP1xP1(tmp1) // tmp2 =  8*v in P2 coords
	tmp1.Double(tmp2)    // tmp1 = 16*v in P1xP1 coords
	v.fromP1xP1(tmp1)    // now v = 16*(odd components)

	// Accumulate the even components
	for i := 0; i < 64; i += 2 {
		basepointTable[i/2].SelectInto(multiple, digits[i])
		tmp1.AddAffine(v, multiple)
		v.fromP1xP1(tmp1)
	}

	return v
}

// ScalarMult sets v = x * q, and returns v.
//
// The scalar multiplication is done in constant time.
func (v *edPoint) ScalarMult(x *edScalar, q *edPoint) *edPoint {
	checkInitialized(q)

	var table projLookupTable
	table.FromP3(q)

	// Write x = sum(x_i * 16^i)
	// so  x*Q = sum( Q*x_i*16^i )
	//         = Q*x_0 + 16*(Q*x_1 + 16*( ... + Q*x_63) ... )
	//           <------compute inside out---------
	//
	// We use the lookup table to get the x_i*Q values
	// and do four doublings to compute 16*Q
	digits := x.signedRadix16()

	// Unwrap first loop iteration to save computing 16*identity
	multiple := &projCached{}
	tmp1 := &projP1xP1{}
	tmp2 := &projP2{}
	table.SelectInto(multiple, digits[63])

	v.Set(newIdentityPoint())
	tmp1.Add(v, multiple) // tmp1 = x_63*Q in P1xP1 coords
	for i := 62; i >= 0; i-- {
		tmp2.FromP1xP1(tmp1) // tmp2 =    (prev) in P2 coords
		tmp1.Double(tmp2)    // tmp1 =  2*(prev) in P1xP1 coords
		tmp2.FromP1xP1(tmp1) // tmp2 =  2*(prev) in P2 coords
		tmp1.Double(tmp2)    // tmp1 =  4*(prev) in P1xP1 coords
		tmp2.FromP1xP1(tmp1) // tmp2 =  4*(prev) in P2 coords
		tmp1.Double(tmp2)    // tmp1 =  8*(prev) in P1xP1 coords
		tmp2.FromP1xP1(tmp1) // tmp2 =  8*(prev) in P2 coords
		tmp1.Double(tmp2)    // tmp1 = 16*(prev) in P1xP1 coords
		v.fromP1xP1(tmp1)    //    v = 16*(prev) in P3 coords
		table.SelectInto(multiple, digits[i])
		tmp1.Add(v, multiple) // tmp1 = x_i*Q + 16*(prev) in P1xP1 coords
	}
	v.fromP1xP1(tmp1)
	return v
}

// basepointNafTable is the nafLookupTable8 for the basepoint.
// It is precomputed the first time it's used.
func basepointNafTable() *nafLookupTable8 {
	basepointNafTablePrecomp.initOnce.Do(func() {
		basepointNafTablePrecomp.table.FromP3(newGeneratorPoint())
	})
	return &basepointNafTablePrecomp.table
}

var basepointNafTablePrecomp struct {
	table    nafLookupTable8
	initOnce sync.Once
}

// VarTimeDoubleScalarBaseMult sets v = a * A + b * B, where B is the canonical
// generator, and returns v.
//
// Execution time depends on the inputs.
func (v *edPoint) VarTimeDoubleScalarBaseMult(a *edScalar, A *edPoint, b *edScalar) *edPoint {
	checkInitialized(A)

	// Similarly to the single variable-base approach, we compute
	// digits and use them with a lookup table.  However, because
	// we are allowed to do variable-time operations, we don't
	// need constant-time lookups or constant-time digit
	// computations.
	//
	// So we use a non-adjacent form of some width w instead of
	// radix 16.  This is like a binary representation (one digit
	// for each binary place) but we allow the digits to grow in
	// magnitude up to 2^{w-1} so that the nonzero digits are as
	// sparse as possible.  Intuitively, this "condenses" the
	// "mass" of the scalar onto sparse coefficients (meaning
	// fewer additions).

	basepointNafTable := basepointNafTable()
	var aTable nafLookupTable5
	aTable.FromP3(A)
	// Because the basepoint is fixed, we can use a wider NAF
	// corresponding to a bigger table.
	aNaf := a.nonAdjacentForm(5)
	bNaf := b.nonAdjacentForm(8)

	// Find the first nonzero coefficient.
	i := 255
	for j := i; j >= 0; j-- {
		if aNaf[j] != 0 || bNaf[j] != 0 {
			break
		}
	}

	multA := &projCached{}
	multB := &affineCached{}
	tmp1 := &projP1xP1{}
	tmp2 := &projP2{}
	tmp2.Zero()

	// Move from high to low bits, doubling the accumulator
	// at each iteration and checking whether there is a nonzero
	// coefficient to look up a multiple of.
	for ; i >= 0; i-- {
		tmp1.Double(tmp2)

		// Only update v if we have a nonzero coeff to add in.
		if aNaf[i] > 0 {
			v.fromP1xP1(tmp1)
			aTable.SelectInto(multA, aNaf[i])
			tmp1.Add(v, multA)
		} else if aNaf[i] < 0 {
			v.fromP1xP1(tmp1)
			aTable.SelectInto(multA, -aNaf[i])
			tmp1.Sub(v, multA)
		}

		if bNaf[i] > 0 {
			v.fromP1xP1(tmp1)
			basepointNafTable.SelectInto(multB, bNaf[i])
			tmp1.AddAffine(v, multB)
		} else if bNaf[i] < 0 {
			v.fromP1xP1(tmp1)
			basepointNafTable.SelectInto(multB, -bNaf[i])
			tmp1.SubAffine(v, multB)
		}

		tmp2.FromP1xP1(tmp1)
	}

	v.fromP2(tmp2)
	return v
}
