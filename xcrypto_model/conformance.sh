#!/bin/bash
# Conformance run of the xcrypto stand-in against the tests of the tree (which hold outputs recorded from the
# real libxcrypto) plus the stand-in's own tests (conformance_test.go) and the end-to-end transaction smoke test.
#   ./conformance.sh          ringct + crypto + xcrypto packages and the smoke test in /repo/types   (~1 min cold)
#   ./conformance.sh --full   additionally /repo/wallet/wallet (25 s; that package's own tests write
#                             /tmp/test_data and /tmp/walletdb, removed afterwards)
# Exit 0 iff every test outside the EXPECTED-FAIL list passes, every MUST-PASS test was really run and passed,
# and every package built. Nothing under /tmp is needed; the overlay lives in /verif/.build/.
set -u
HERE="$(cd "$(dirname "$0")" && pwd)"
VERIF="$(dirname "$HERE")"
REPO="${VERIF_REPO:-/repo}"
export GOFLAGS=-mod=mod GOPROXY=off GOSUMDB=off GOTOOLCHAIN=local CGO_ENABLED=1
mkdir -p "$VERIF/.build"
OV="$VERIF/.build/xcrypto-conformance.$$.json"
EX="$VERIF/.build/xcrypto-conformance.$$.extra.json"
OUT="$VERIF/.build/xcrypto-conformance.$$.jsonl"
trap 'rm -f "$OV" "$EX" "$OUT"' EXIT
cat > "$EX" <<EOJ
{"Replace": {
 "$REPO/libs/cryptonote/xcrypto/zz_verif_conformance_test.go": "$HERE/conformance_test.go",
 "$REPO/types/zz_xcrypto_smoke_export_test.go": "$HERE/smoke/export_test.go",
 "$REPO/types/zz_xcrypto_smoke_test.go": "$HERE/smoke/smoke_test.go"
}}
EOJ
VERIF_EXTRA_OVERLAY="$EX" python3 "$VERIF/tools/mkoverlay.py" "$OV" >/dev/null || { echo "overlay generation failed" >&2; exit 2; }
cd "$REPO" || exit 2
: > "$OUT"
go test -json -overlay "$OV" -vet=off -count=1 ./libs/cryptonote/ringct/ ./libs/cryptonote/crypto/ ./libs/cryptonote/xcrypto/ >> "$OUT" 2>&1
go test -json -overlay "$OV" -vet=off -count=1 -run 'TestXcryptoSmoke|TestAsMessage|TestCheck$' ./types/ >> "$OUT" 2>&1
if [ "${1:-}" = "--full" ]; then
  go test -json -overlay "$OV" -vet=off -count=1 ./wallet/wallet/ >> "$OUT" 2>&1
  rm -rf /tmp/test_data /tmp/walletdb
fi
python3 - "$OUT" "${1:-}" <<'PY'
import json, sys
P = "github.com/lianxiangcloud/linkchain/"
# tests that cannot pass against the stand-in, and why
XFAIL = {
 (P+"libs/cryptonote/ringct", "TestVerRctSimple"): "verifies a RECORDED real bulletproof; range proofs are an ideal functionality",
 (P+"libs/cryptonote/xcrypto", "TestWordsToBytes"): "needs Monero's English mnemonic word list (not in the tree)",
 (P+"libs/cryptonote/xcrypto", "TestBytesToWords"): "needs Monero's English mnemonic word list (not in the tree)",
 (P+"libs/cryptonote/xcrypto", "TestGenerateKeys"): "starts from WordsToBytes (the key vector itself is checked by TestVerifGenerateKeysRecorded)",
 (P+"wallet/wallet", "TestWordsToAccount"): "needs the mnemonic word list",
 (P+"wallet/wallet", "TestWordsToKey"): "needs the mnemonic word list",
 (P+"wallet/wallet", "TestGetSubaddr"): "needs the mnemonic word list (the recorded address is checked by TestVerifSubaddressRecorded)",
 (P+"wallet/wallet", "TestOutputs"): "needs the mnemonic word list",
}
# recorded-vector tests that MUST have run and passed (guards against an empty run)
MUST = [(P+"libs/cryptonote/ringct", t) for t in
  "TestScalarmultKey TestScalarmultBase TestSkpkGen TestZeroCommit TestScalarmult8 TestScAdd TestScSub TestSkGen TestGenC TestAddKeys TestAddKeyV TestAddKeys2 TestVerRctNonSemanticsSimple TestProveRangeBulletproof TestVerBulletproof TestGetPreMlsagHashTlv".split()] + \
 [(P+"libs/cryptonote/crypto", t) for t in "TestCheckKey TestKeyTo TestRingSignature".split()] + \
 [(P+"libs/cryptonote/xcrypto", t) for t in
  "TestTlvKeyVTest TestTlvRctV TestTlvRctSignCgo TestTlvGetSubaddressCgo TestRctSigDEncode TestVerifConstants TestVerifGenerateKeysRecorded TestVerifSubaddressRecorded TestVerifKeyImageRecorded TestVerifRingSignature TestVerifScalarmultExact TestVerifDerivations TestVerifEcdh TestVerifBulletproofIdeal TestVerifRecordedRctSig TestVerifMlsagRoundTrip TestVerifWordsRoundTrip TestVerifRngDeterministic TestVerifKeccak".split()] + \
 [(P+"types", t) for t in "TestXcryptoSmoke TestAsMessage TestCheck".split()]
if sys.argv[2] == "--full":
    MUST += [(P+"wallet/wallet", t) for t in
      "TestDecodeAmount TestOneTimeAddress TestGenerateKeyImage TestSubmitUTXOTransactions TestCreateAinTransaction TestCreateUinTransaction TestSubaddrReceive TestSubaddrSpend TestRemark TestBigVerifyProof TestOneRingMember TestStrToAddress".split()]
res, pkgres, raw = {}, {}, []
for line in open(sys.argv[1], errors="replace"):
    line = line.strip()
    if not line.startswith("{"):
        raw.append(line); continue
    try: e = json.loads(line)
    except ValueError: raw.append(line); continue
    a, p, t = e.get("Action"), e.get("Package"), e.get("Test")
    if a in ("pass", "fail", "skip"):
        if t: res[(p, t)] = a
        else: pkgres[p] = a
bad = 0
for k in sorted(res):
    st = res[k]
    tag = {"pass": "PASS ", "fail": "FAIL ", "skip": "SKIP "}[st]
    note = ""
    if k in XFAIL:
        note = "   [expected: %s]" % XFAIL[k]
        if st == "fail": tag = "XFAIL"
        elif st == "pass": tag = "XPASS"
    elif st == "fail":
        bad += 1; note = "   <== UNEXPECTED"
    if "/" not in k[1]:  # no sub-tests
        print("%s %-34s %s%s" % (tag, k[0][len(P):], k[1], note))
for k in MUST:
    if res.get(k) != "pass":
        bad += 1; print("MISSING/NOT-PASSED must-pass test: %s %s (%s)" % (k[0][len(P):], k[1], res.get(k)))
for p, st in sorted(pkgres.items()):
    unexpected = [k for k in res if k[0] == p and res[k] == "fail" and k not in XFAIL]
    if st == "fail" and not any(k[0] == p and res[k] == "fail" for k in res):
        bad += 1; print("PACKAGE FAILED without a failing test (build error or panic): %s" % p)
if not pkgres:
    bad += 1
if raw and bad:
    print("\n".join(l for l in raw if l)[:4000])
print("xcrypto stand-in conformance: %s (%d results, %d problems)" % ("OK" if not bad else "FAILED", len(res), bad))
sys.exit(0 if not bad else 1)
PY
