//go:build go1.21

// Conformance and self tests of the xcrypto stand-in (projected into libs/cryptonote/xcrypto by the overlay).
// Vectors marked "recorded" were produced by the real libxcrypto and are copied from test files of the tree.

package xcrypto

import (
	"bytes"
	"encoding/hex"
	"runtime"
	"sync"
	"sync/atomic"
	"testing"

	"github.com/btcsuite/btcutil/base58"
	"github.com/lianxiangcloud/linkchain/libs/cryptonote/types"
	"golang.org/x/crypto/sha3"
)

func hx(s string) (k [32]byte) {
	b, err := hex.DecodeString(s)
	if err != nil || len(b) != 32 {
		panic("bad hex " + s)
	}
	copy(k[:], b)
	return k
}

// recorded: the cn_fast_hash table of xcrypto/data_test.go (321 inputs, up to ~4 KiB); plus x/crypto's Keccak-256
func TestVerifKeccak(t *testing.T) {
	if len(hashpair) < 200 {
		t.Fatal("hash table of data_test.go not found")
	}
	for _, hp := range hashpair {
		in, _ := hex.DecodeString(hp[1])
		if got := keccak(in); hex.EncodeToString(got[:]) != hp[0] {
			t.Fatalf("keccak(%d bytes) = %x want %s", len(in), got, hp[0])
		}
		if len(in) > 3 { // split writes
			if got := keccak(in[:1], in[1:3], nil, in[3:]); hex.EncodeToString(got[:]) != hp[0] {
				t.Fatalf("keccak split (%d bytes)", len(in))
			}
		}
	}
	for n := 0; n < 600; n++ {
		in := make([]byte, n, n+512) // spare capacity keeps x/crypto's unaligned xor inside one allocation (checkptr)
		for i := range in {
			in[i] = byte(i*7 + n)
		}
		h := sha3.NewLegacyKeccak256()
		h.Write(in)
		if got := keccak(in); !bytes.Equal(h.Sum(nil), got[:]) {
			t.Fatalf("keccak(%d bytes) differs from x/crypto", n)
		}
	}
}

func TestVerifConstants(t *testing.T) {
	if encodePoint(newGeneratorPoint()) != keyG {
		t.Fatal("G")
	}
	// H = 8 * decode(keccak(G))  (rctTypes.h)
	P, ok := decodePoint(keccak(keyG[:]))
	if !ok || encodePoint(ptMul8(P)) != keyH {
		t.Fatal("H is not 8*toPoint(cn_fast_hash(G))")
	}
	if r, err := ScalarmultKey(keyG, keyL); err != nil || r != keyIdentity {
		t.Fatal("L*G != identity")
	}
	if ScAdd(types.EcScalar(keyL), types.EcScalar{}) != (types.Key{}) {
		t.Fatal("L mod L != 0")
	}
	eight := types.Key{8}
	one := scOut(new(edScalar).Multiply(scReduce(eight), scInvEight))
	if one != (types.Key{1}) {
		t.Fatal("8*INV_EIGHT != 1")
	}
}

// recorded: xcrypto/keys_test.go (spend keys, view keys of the same account)
func TestVerifGenerateKeysRecorded(t *testing.T) {
	spendSec := hx("b0ef6bd527b9b23b9ceef70dc8b4cd1ee83ca14541964e764ad23f5151204f0f")
	sk, pk := GenerateKeys(spendSec)
	if sk != types.SecretKey(spendSec) || pk != types.PublicKey(hx("7d996b0f2db6dbb5f2a086211f2399a4a7479b2c911af307fdc3f7f61a88cb0e")) {
		t.Fatalf("spend keys: %x %x", sk, pk)
	}
	// wallet.RecoveryKeyToAccount: view = GenerateKeys(keccak(spendSec))
	vs, vp := GenerateKeys(keccak(spendSec[:]))
	if vs != types.SecretKey(hx("42ba20adb337e5eca797565be11c9adb0a8bef8c830bccc2df712535d3b8f608")) ||
		vp != types.PublicKey(hx("1c06bcac7082f73af10460b5f2849aded79374b2fbdaae5d9384b9b6514fddcb")) {
		t.Fatalf("view keys: %x %x", vs, vp)
	}
	p2, err := SecretKeyToPublicKey(sk)
	if err != nil || p2 != pk {
		t.Fatal("SecretKeyToPublicKey")
	}
	if _, err := SecretKeyToPublicKey(types.SecretKey(keyL)); err == nil {
		t.Fatal("SecretKeyToPublicKey must refuse a non-canonical scalar")
	}
}

// recorded: wallet/wallet/key_test.go TestGetSubaddr (sub-address 1 of the account above, base58 prefix 80)
func TestVerifSubaddressRecorded(t *testing.T) {
	acc := &types.AccountKey{
		Addr: types.AccountAddress{
			SpendPublicKey: hx("7d996b0f2db6dbb5f2a086211f2399a4a7479b2c911af307fdc3f7f61a88cb0e"),
			ViewPublicKey:  hx("1c06bcac7082f73af10460b5f2849aded79374b2fbdaae5d9384b9b6514fddcb"),
		},
		SpendSKey: hx("b0ef6bd527b9b23b9ceef70dc8b4cd1ee83ca14541964e764ad23f5151204f0f"),
		ViewSKey:  hx("42ba20adb337e5eca797565be11c9adb0a8bef8c830bccc2df712535d3b8f608"),
	}
	raw := base58.Decode("oHXav7gNves6vewvdMoBtwd3nNeM1sNBBQUdSggUVVB2XB7vg7JUXjntBpGx5LEkahq9yzRb25UuymoW8oYmnycV2hgYsb")
	if len(raw) != 1+32+32+4 || raw[0] != 80 {
		t.Fatalf("bad recorded address: %d bytes", len(raw))
	}
	addr, err := TlvGetSubaddress(acc, 1)
	if err != nil {
		t.Fatal(err)
	}
	if !bytes.Equal(addr.SpendPublicKey[:], raw[1:33]) || !bytes.Equal(addr.ViewPublicKey[:], raw[33:65]) {
		t.Fatalf("sub-address 1 mismatch:\n got  %x %x\n want %x %x", addr.SpendPublicKey, addr.ViewPublicKey, raw[1:33], raw[33:65])
	}
	if a0, _ := TlvGetSubaddress(acc, 0); a0 != acc.Addr {
		t.Fatal("index 0 must be the main address")
	}
	// the spend key of the sub-address is B + m*G with m = GetSubaddressSecretKey
	m := GetSubaddressSecretKey(acc.ViewSKey, 1)
	sub := SecretAdd(acc.SpendSKey, m)
	if p, _ := SecretKeyToPublicKey(sub); p != addr.SpendPublicKey {
		t.Fatal("sub-address secret/public mismatch")
	}
}

// recorded: crypto/crypto_test.go TestRingSignature and wallet/wallet/transaction_test.go TestOneRingMember
func TestVerifKeyImageRecorded(t *testing.T) {
	for _, v := range [][3]string{
		{"a848fa34a9eb4f3e03e195ee02dd9bd3aa29c21562d5e4cd24ed85223c32ff7b", "95898948acd114cb712a6e4c7a2bdd91cb9b9e3690380acf8a8b1e5f9b73960d", "9797bc0f8df768f44ea13e18c0335f821a215cf971909f2e16eb3c27f79e2d1e"},
		{"3f64263b783282baf63cf33a008e41dacc734a06e43b29dd5fd15b6aed1c0f78", "6f0e57a8cda67088f850cfd5d9fffeb9afc4b8fee8bca7fea7503fe6f6ea7d09", "03896b4070b318f5555494b1a2816029622f41b0ba72cc571b614532d74324b0"},
	} {
		pub, sec, want := hx(v[0]), hx(v[1]), hx(v[2])
		if p, _ := SecretKeyToPublicKey(sec); p != types.PublicKey(pub) {
			t.Fatalf("vector inconsistent: %x is not the public key of %x", pub, sec)
		}
		ki, err := GenerateKeyImage(pub, sec)
		if err != nil || ki != types.KeyImage(want) {
			t.Fatalf("key image of %x: got %x want %x", pub, ki, want)
		}
		if r, _ := ScalarmultKey(types.Key(ki), keyL); r != keyIdentity {
			t.Fatal("L*KI != identity")
		}
	}
}

// TestOneRingMember (wallet): a signature made with a foreign secret/key image is produced but does not verify.
func TestVerifRingSignature(t *testing.T) {
	VerifSetSeed(7)
	pub, sec, ki := hx("3f64263b783282baf63cf33a008e41dacc734a06e43b29dd5fd15b6aed1c0f78"), hx("6f0e57a8cda67088f850cfd5d9fffeb9afc4b8fee8bca7fea7503fe6f6ea7d09"), hx("03896b4070b318f5555494b1a2816029622f41b0ba72cc571b614532d74324b0")
	h := types.Hash(hx("1a3b597ce825eddc60a6441ee926503202ab592158542b72f1f8765d89e8ae00"))
	pubs := []types.PublicKey{pub}
	sig, err := GenerateRingSignature(h, ki, pubs, sec, 0)
	if err != nil || !CheckRingSignature(h, ki, pubs, sig) {
		t.Fatal("honest signature rejected")
	}
	h2 := h
	h2[0] ^= 1
	if CheckRingSignature(h2, ki, pubs, sig) {
		t.Fatal("other message accepted")
	}
	fakeSec, fakeKi := hx("bf425dc7d1826e6d57b03db518a8dba56fd16d95886ea927115ece96d80af107"), hx("e30b44960ff3597744003cefd0de4bc7b16dbd6e402fa653dde103e4069c57a1")
	sig2, err := GenerateRingSignature(h, fakeKi, pubs, fakeSec, 0)
	if err != nil {
		t.Fatalf("the real library signs with any secret: %v", err)
	}
	if CheckRingSignature(h, fakeKi, pubs, sig2) {
		t.Fatal("forged signature accepted")
	}
	// right secret, wrong key image
	sig3, _ := GenerateRingSignature(h, fakeKi, pubs, sec, 0)
	if CheckRingSignature(h, fakeKi, pubs, sig3) {
		t.Fatal("wrong key image accepted")
	}
	if CheckRingSignature(h, fakeKi, pubs, sig) {
		t.Fatal("signature transplanted to another key image accepted")
	}
}

func TestVerifScalarmultExact(t *testing.T) {
	// T = (0,-1): the point of order 2; y = p-1
	T := [32]byte{0xec, 0xff, 0xff, 0xff, 0xff, 0xff, 0xff, 0xff, 0xff, 0xff, 0xff, 0xff, 0xff, 0xff, 0xff, 0xff, 0xff, 0xff, 0xff, 0xff, 0xff, 0xff, 0xff, 0xff, 0xff, 0xff, 0xff, 0xff, 0xff, 0xff, 0xff, 0x7f}
	if !CheckKey(T) {
		t.Fatal("(0,-1) must decode")
	}
	if r, _ := ScalarmultKey(T, keyL); r != T {
		t.Fatalf("L*(0,-1) = %x, want (0,-1): the scalar must not be reduced mod L", r)
	}
	GT, _ := AddKeys(keyG, T)
	if r, _ := ScalarmultKey(GT, keyL); r != T || r == keyIdentity {
		t.Fatalf("L*(G+T) = %x, want T", r)
	}
	// 2L + 5
	s := leToBig(keyL)
	s.Add(s, s).Add(s, leToBig([32]byte{5}))
	var sb [32]byte
	be := s.Bytes()
	for i := range be {
		sb[i] = be[len(be)-1-i]
	}
	five, _ := ScalarmultKey(GT, types.Key{5})
	if r, _ := ScalarmultKey(GT, sb); r != five { // 2L*T = identity
		t.Fatalf("(2L+5)*(G+T) = %x want %x", r, five)
	}
	// non-canonical encodings are refused like ge_frombytes_vartime does
	bad := keyIdentity
	bad[31] |= 0x80 // x = 0 with sign bit
	if CheckKey(bad) {
		t.Fatal("x=0 with sign bit accepted")
	}
	yp := [32]byte{0xee, 0xff, 0xff, 0xff, 0xff, 0xff, 0xff, 0xff, 0xff, 0xff, 0xff, 0xff, 0xff, 0xff, 0xff, 0xff, 0xff, 0xff, 0xff, 0xff, 0xff, 0xff, 0xff, 0xff, 0xff, 0xff, 0xff, 0xff, 0xff, 0xff, 0xff, 0x7f} // y = p+1 = 1 non-canonical
	if CheckKey(yp) {
		t.Fatal("non-canonical y accepted")
	}
	if _, err := ScalarmultKey(bad, types.Key{1}); err == nil {
		t.Fatal("ScalarmultKey must fail on an invalid point")
	}
}

func TestVerifDerivations(t *testing.T) {
	VerifSetSeed(3)
	_, spendPub := GenerateKeys(hx("b0ef6bd527b9b23b9ceef70dc8b4cd1ee83ca14541964e764ad23f5151204f0f"))
	spendSec := types.SecretKey(hx("b0ef6bd527b9b23b9ceef70dc8b4cd1ee83ca14541964e764ad23f5151204f0f"))
	viewSec, viewPub := GenerateKeys(keccak(spendSec[:]))
	r, R := SkpkGen()
	d1, err1 := GenerateKeyDerivation(viewPub, types.SecretKey(r))
	d2, err2 := GenerateKeyDerivation(types.PublicKey(R), viewSec)
	if err1 != nil || err2 != nil || d1 != d2 {
		t.Fatal("derivation not symmetric")
	}
	for _, idx := range []int{0, 1, 127, 128, 300} {
		ot, err := DerivePublicKey(d1, idx, spendPub)
		if err != nil {
			t.Fatal(err)
		}
		back, err := DeriveSubaddressPublicKey(ot, d2, idx)
		if err != nil || back != spendPub {
			t.Fatal("DeriveSubaddressPublicKey does not invert DerivePublicKey")
		}
		x, _ := DeriveSecretKey(d2, idx, spendSec)
		if p, _ := SecretKeyToPublicKey(x); p != ot {
			t.Fatal("DeriveSecretKey/DerivePublicKey mismatch")
		}
		s, _ := DerivationToScalar(d1, idx)
		if SecretAdd(spendSec, types.SecretKey(s)) != x {
			t.Fatal("DerivationToScalar/DeriveSecretKey mismatch")
		}
		ki, _ := GenerateKeyImage(ot, x)
		if rr, _ := ScalarmultKey(types.Key(ki), keyL); rr != keyIdentity {
			t.Fatal("key image outside the prime-order subgroup")
		}
	}
	if _, err := GenerateKeyDerivation(types.PublicKey(hx("c2cb3cf3840aa9893e00ec77093d3d44dba7da840b51c48462072d58d8efd183")), viewSec); err == nil {
		t.Fatal("derivation from an invalid public key must fail")
	}
}

func TestVerifEcdh(t *testing.T) {
	shared := types.Key(hx("3bad1b70953bc6e9f30bedb9329f2e53275be1b7890c423b8541bb0df8ab5507"))
	for _, short := range []bool{false, true} {
		in := types.EcdhTuple{Mask: scOut(genCommitmentMask(shared)), Amount: types.Key{0x15, 0xcd, 0x5b, 0x07}}
		e := in
		if !EcdhEncode(&e, shared, short) || e.Amount == in.Amount {
			t.Fatal("encode")
		}
		if short && e.Mask != (types.Key{}) {
			t.Fatal("short form must clear the mask")
		}
		if !EcdhDecode(&e, shared, short) || e != in {
			t.Fatalf("decode(short=%v) does not invert encode", short)
		}
	}
}

func TestVerifBulletproofIdeal(t *testing.T) {
	sk := types.KeyV{hx("3bad1b70953bc6e9f30bedb9329f2e53275be1b7890c423b8541bb0df8ab5507"), hx("24ad5acebca0a650fbad61cea01fd9fb8e0c9a3b782302fdd6f8e2f959eecc0e")}
	am := func(v uint64, hi ...byte) (k types.Key) {
		for i := 0; i < 8; i++ {
			k[i] = byte(v >> (8 * uint(i)))
		}
		copy(k[8:], hi)
		return k
	}
	// shape: L/R = log2(nbits) + log2(padded M)
	for m := 1; m <= 16; m++ {
		amounts, sks := types.KeyV{}, types.KeyV{}
		for i := 0; i < m; i++ {
			amounts = append(amounts, am(uint64(1000+i)))
			sks = append(sks, sk[i%2])
		}
		for _, nbits := range []int{64, 128} {
			prove, ver := TlvProveRangeBulletproof, TlvVerBulletproof
			if nbits == 128 {
				prove, ver = TlvProveRangeBulletproof128, TlvVerBulletproof128
			}
			bp, c, masks, err := prove(amounts, sks)
			if err != nil {
				t.Fatal(err)
			}
			want := bpLog2(nbits) + bpPaddedLog(m)
			if len(bp.L) != want || len(bp.R) != want || len(c) != m || len(masks) != m || len(bp.V) != m {
				t.Fatalf("m=%d nbits=%d: L=%d want %d", m, nbits, len(bp.L), want)
			}
			for i := range c {
				// 8*C = mask*G + amount*H
				c8, _ := Scalarmult8(c[i])
				g, _ := AddKeys2(masks[i], amounts[i], keyH)
				if c8 != g {
					t.Fatal("commitment")
				}
			}
			if ok, err := ver(bp); err != nil || !ok {
				t.Fatalf("m=%d nbits=%d: honest proof rejected", m, nbits)
			}
			// every field is bound
			mut := func(f func(b *types.Bulletproof)) {
				cp := *bp
				cp.V = append(types.KeyV{}, bp.V...)
				cp.L = append(types.KeyV{}, bp.L...)
				cp.R = append(types.KeyV{}, bp.R...)
				f(&cp)
				if ok, _ := ver(&cp); ok {
					t.Fatalf("m=%d nbits=%d: mutated proof accepted", m, nbits)
				}
			}
			mut(func(b *types.Bulletproof) { b.A[0] ^= 1 })
			mut(func(b *types.Bulletproof) { b.S[3] ^= 1 })
			mut(func(b *types.Bulletproof) { b.T1[3] ^= 1 })
			mut(func(b *types.Bulletproof) { b.T2[3] ^= 1 })
			mut(func(b *types.Bulletproof) { b.Taux[3] ^= 1 })
			mut(func(b *types.Bulletproof) { b.Mu[3] ^= 1 })
			mut(func(b *types.Bulletproof) { b.Aa[3] ^= 1 })
			mut(func(b *types.Bulletproof) { b.B[3] ^= 1 })
			mut(func(b *types.Bulletproof) { b.T[3] ^= 1 })
			mut(func(b *types.Bulletproof) { b.L[len(b.L)-1][9] ^= 1 })
			mut(func(b *types.Bulletproof) { b.R[0][9] ^= 1 })
			mut(func(b *types.Bulletproof) { b.V[m-1], _ = AddKeys(b.V[m-1], keyH) }) // commitment to another amount
			mut(func(b *types.Bulletproof) { b.L = b.L[1:]; b.R = b.R[1:] })
			mut(func(b *types.Bulletproof) { b.V = append(b.V, b.V[0]) })
			// a proof of the other bit width does not verify
			other := TlvVerBulletproof128
			if nbits == 128 {
				other = TlvVerBulletproof
			}
			if ok, _ := other(bp); ok {
				t.Fatal("proof accepted by the verifier of the other width")
			}
		}
	}
	// out of range: a proof comes back (as with the real prover) but never verifies
	bp, _, _, err := TlvProveRangeBulletproof(types.KeyV{am(0, 1)}, sk[:1]) // 2^64
	if err != nil {
		t.Fatal(err)
	}
	if ok, _ := TlvVerBulletproof(bp); ok {
		t.Fatal("2^64 proved in 64 bits")
	}
	bp, _, _, _ = TlvProveRangeBulletproof(types.KeyV{am(^uint64(0))}, sk[:1]) // 2^64-1
	if ok, _ := TlvVerBulletproof(bp); !ok {
		t.Fatal("2^64-1 rejected")
	}
	bp, _, _, _ = TlvProveRangeBulletproof128(types.KeyV{am(0, 1)}, sk[:1]) // 2^64 in 128 bits
	if ok, _ := TlvVerBulletproof128(bp); !ok {
		t.Fatal("2^64 rejected in 128 bits")
	}
	bp, _, _, _ = TlvProveRangeBulletproof128(types.KeyV{am(0, 0, 0, 0, 0, 0, 0, 0, 0, 1)}, sk[:1]) // 2^128
	if ok, _ := TlvVerBulletproof128(bp); ok {
		t.Fatal("2^128 proved in 128 bits")
	}
	// not a scalar / size errors
	if _, _, _, err := TlvProveRangeBulletproof(types.KeyV{keyL}, sk[:1]); err == nil {
		t.Fatal("unreduced amount accepted")
	}
	if _, _, _, err := TlvProveRangeBulletproof(types.KeyV{am(1)}, sk); err == nil {
		t.Fatal("size mismatch accepted")
	}
	if _, _, _, err := TlvProveRangeBulletproof(types.KeyV{}, types.KeyV{}); err == nil {
		t.Fatal("empty accepted")
	}
	if _, _, _, err := TlvProveRangeBulletproof(make(types.KeyV, 17), make(types.KeyV, 17)); err == nil {
		t.Fatal("17 outputs accepted")
	}
}

// The recorded RingCT signature of the tree (a real transaction: 1 input, ring of 7, 2 outputs).
func TestVerifRecordedRctSig(t *testing.T) {
	rv := DefualtTestRctsig()
	rv.PseudoOuts = types.KeyV{}
	if !TlvVerRctNotSemanticsSimple(rv) {
		t.Fatal("recorded MLSAG rejected")
	}
	// balance equation of the recorded transaction holds; only the (ideal) bulletproof check cannot pass
	sumOut := newIdentityPoint()
	for i := range rv.OutPk {
		P, _ := decodePoint(rv.OutPk[i].Mask)
		sumOut.Add(sumOut, P)
	}
	sumOut.Add(sumOut, new(edPoint).ScalarMult(scFromUint64(uint64(rv.TxnFee)), ptH))
	sumIn := newIdentityPoint()
	for i := range rv.P.PseudoOuts {
		P, _ := decodePoint(rv.P.PseudoOuts[i])
		sumIn.Add(sumIn, P)
	}
	if sumIn.Equal(sumOut) != 1 {
		t.Fatal("recorded transaction does not balance")
	}
	// every public part of the MLSAG statement is bound
	mut := func(name string, f func(r *types.RctSig)) {
		r := DefualtTestRctsig()
		r.PseudoOuts = types.KeyV{}
		f(r)
		if TlvVerRctNotSemanticsSimple(r) {
			t.Fatalf("mutation %q accepted", name)
		}
	}
	mut("message", func(r *types.RctSig) { r.Message[0] ^= 1 })
	mut("fee", func(r *types.RctSig) { r.TxnFee++ })
	mut("type", func(r *types.RctSig) { r.Type = uint8(types.RCTTypeBulletproof) })
	mut("ecdh", func(r *types.RctSig) {
		r.EcdhInfo = append([]types.EcdhTuple{}, r.EcdhInfo...)
		r.EcdhInfo[1].Amount[0] ^= 1
	})
	mut("outPk", func(r *types.RctSig) { r.OutPk = append(types.CtkeyV{}, r.OutPk...); r.OutPk[0].Mask = keyH })
	mut("bp.A", func(r *types.RctSig) {
		r.P.Bulletproofs = append([]types.Bulletproof{}, r.P.Bulletproofs...)
		r.P.Bulletproofs[0].A[0] ^= 1
	})
	mut("ring dest", func(r *types.RctSig) {
		r.MixRing = types.CtkeyM{append(types.CtkeyV{}, r.MixRing[0]...)}
		r.MixRing[0][3].Dest = keyG
	})
	mut("ring mask", func(r *types.RctSig) {
		r.MixRing = types.CtkeyM{append(types.CtkeyV{}, r.MixRing[0]...)}
		r.MixRing[0][2].Mask = keyG
	})
	mut("ring order", func(r *types.RctSig) {
		r.MixRing = types.CtkeyM{append(types.CtkeyV{}, r.MixRing[0]...)}
		r.MixRing[0][0], r.MixRing[0][1] = r.MixRing[0][1], r.MixRing[0][0]
	})
	mut("pseudoOut", func(r *types.RctSig) { r.P.PseudoOuts = types.KeyV{keyH} })
	mut("key image", func(r *types.RctSig) {
		r.P.MGs = []types.MgSig{r.P.MGs[0]}
		r.P.MGs[0].II = types.KeyV{keyG}
	})
	mut("cc", func(r *types.RctSig) { r.P.MGs = []types.MgSig{r.P.MGs[0]}; r.P.MGs[0].Cc[0] ^= 1 })
}

func TestVerifMlsagRoundTrip(t *testing.T) {
	VerifSetSeed(11)
	for _, cols := range []int{2, 3, 11} {
		for idx := 0; idx < cols; idx++ {
			// ring of (dest, commitment) pairs; the signer owns column idx
			pubs := make(types.CtkeyV, cols)
			var inSk types.Ctkey
			amount := types.Key{42}
			for i := range pubs {
				x, P := SkpkGen()
				mask := SkGen()
				am := types.Key{byte(i + 1)}
				if i == idx {
					am = amount
					inSk = types.Ctkey{Dest: x, Mask: mask}
				}
				pubs[i].Dest = P
				pubs[i].Mask, _ = AddKeys2(mask, am, keyH)
			}
			a := SkGen()
			pseudo, _ := AddKeys2(a, amount, keyH)
			msg := types.Key(keccak([]byte("msg")))
			sig, err := TlvProveRctMGSimple(msg, pubs, inSk, a, pseudo, nil, nil, uint32(idx))
			if err != nil {
				t.Fatal(err)
			}
			if len(sig.Ss) != cols || len(sig.Ss[0]) != 2 || len(sig.II) != 1 {
				t.Fatal("shape")
			}
			ki, _ := GenerateKeyImage(types.PublicKey(pubs[idx].Dest), types.SecretKey(inSk.Dest))
			if sig.II[0] != types.Key(ki) {
				t.Fatal("II is not the key image of the signer")
			}
			if !verRctMGSimple(msg, sig, pubs, pseudo) {
				t.Fatalf("cols=%d idx=%d: honest MLSAG rejected", cols, idx)
			}
			// pseudo output committing to another amount: the prover cannot know the discrete log
			pseudo2, _ := AddKeys2(a, types.Key{43}, keyH)
			sig2, _ := TlvProveRctMGSimple(msg, pubs, inSk, a, pseudo2, nil, nil, uint32(idx))
			if verRctMGSimple(msg, sig2, pubs, pseudo2) {
				t.Fatal("MLSAG for a pseudo output with a different amount verified")
			}
			// wrong spend secret
			bad := inSk
			bad.Dest = SkGen()
			sig3, _ := TlvProveRctMGSimple(msg, pubs, bad, a, pseudo, nil, nil, uint32(idx))
			if verRctMGSimple(msg, sig3, pubs, pseudo) {
				t.Fatal("MLSAG with a foreign spend key verified")
			}
			// claimed index differs from the owned column
			sig4, _ := TlvProveRctMGSimple(msg, pubs, inSk, a, pseudo, nil, nil, uint32((idx+1)%cols))
			if verRctMGSimple(msg, sig4, pubs, pseudo) {
				t.Fatal("MLSAG with a wrong index verified")
			}
		}
	}
	if _, err := TlvProveRctMGSimple(types.Key{}, make(types.CtkeyV, 1), types.Ctkey{}, types.Key{}, keyIdentity, nil, nil, 0); err == nil {
		t.Fatal("ring of one must be refused (MLSAG_Gen: cols >= 2)")
	}
}

func TestVerifWordsRoundTrip(t *testing.T) {
	k := types.SecretKey(hx("b0ef6bd527b9b23b9ceef70dc8b4cd1ee83ca14541964e764ad23f5151204f0f"))
	w, err := BytesToWords(k, "English")
	if err != nil {
		t.Fatal(err)
	}
	back, err := WordsToBytes(w)
	if err != nil || back != k {
		t.Fatalf("round trip: %q -> %x (%v)", w, back, err)
	}
	if _, err := WordsToBytes("sequence atlas unveil"); err == nil {
		t.Fatal("foreign words accepted")
	}
	bad := []byte(w)
	bad[0] ^= 1
	if _, err := WordsToBytes(string(bad)); err == nil {
		t.Fatal("checksum not checked")
	}
}

func TestVerifRngDeterministic(t *testing.T) {
	VerifSetSeed(5)
	a1, a2 := SkGen(), SkGen()
	VerifSetSeed(5)
	b1, b2 := SkGen(), SkGen()
	VerifSetSeed(6)
	c1 := SkGen()
	if a1 != b1 || a2 != b2 || a1 == a2 || a1 == c1 {
		t.Fatal("generator not deterministic / not seed dependent")
	}
	s, n := VerifRngState()
	x := SkGen()
	VerifSetRngState(s, n)
	if SkGen() != x {
		t.Fatal("state restore")
	}
	// goroutine-local generators: each goroutine's stream depends on its own seed only
	VerifSetSeed(5)
	const workers, draws = 8, 50
	var got [2][workers][draws]types.Key
	for round := 0; round < 2; round++ {
		var wg sync.WaitGroup
		for w := 0; w < workers; w++ {
			wg.Add(1)
			go func(w int) {
				defer wg.Done()
				VerifSetLocalSeed(uint64(1000 + w))
				defer VerifClearLocalSeed()
				for i := 0; i < draws; i++ {
					got[round][w][i] = SkGen()
					if i%7 == w%7 {
						runtime.Gosched()
					}
				}
			}(w)
		}
		wg.Wait()
	}
	if got[0] != got[1] {
		t.Fatal("goroutine-local generators are not reproducible")
	}
	if got[0][0][0] == got[0][1][0] || got[0][0][0] == got[0][0][1] {
		t.Fatal("goroutine-local streams collide")
	}
	if SkGen() != a1 { // the process-wide generator (seed 5, counter 0) was not touched by the workers
		t.Fatal("local generators leaked into the process-wide one")
	}
	if atomic.LoadInt32(&rngLocalN) != 0 {
		t.Fatal("local generators not cleared")
	}
}
