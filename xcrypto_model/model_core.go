//go:build go1.21

// Pure-Go stand-in for the cgo package xcrypto (verification builds only; injected by overlay).
// See README.md in /verif/xcrypto_model. This file: shared primitives (keccak, scalars mod L, strict point
// decoding, exact scalar multiplication, Monero hash-to-point, deterministic generator).
//
// The file-level build constraint upgrades the language version of this file only: the package is
// compiled inside module /repo whose go.mod says `go 1.12`.

package xcrypto

import (
	"encoding/binary"
	"math/big"
	"math/bits"
	"runtime"
	"sync"
	"sync/atomic"
)

// ---------------------------------------------------------------------------------------------
// constants (the encodings hard-coded in libs/cryptonote/ringct/rctops.go; that package imports this one, so
// they are repeated here. TestVerifConstants re-derives them: H = 8*toPoint(keccak(G)), L*G = identity,
// 8*INV_EIGHT = 1 mod L; the ringct tests and the smoke test use ringct's copies against these)

var (
	keyIdentity = [32]byte{1}
	keyG        = [32]byte{0x58, 0x66, 0x66, 0x66, 0x66, 0x66, 0x66, 0x66, 0x66, 0x66, 0x66, 0x66, 0x66, 0x66, 0x66, 0x66, 0x66, 0x66, 0x66, 0x66, 0x66, 0x66, 0x66, 0x66, 0x66, 0x66, 0x66, 0x66, 0x66, 0x66, 0x66, 0x66}
	keyH        = [32]byte{0x8b, 0x65, 0x59, 0x70, 0x15, 0x37, 0x99, 0xaf, 0x2a, 0xea, 0xdc, 0x9f, 0xf1, 0xad, 0xd0, 0xea, 0x6c, 0x72, 0x51, 0xd5, 0x41, 0x54, 0xcf, 0xa9, 0x2c, 0x17, 0x3a, 0x0d, 0xd3, 0x9c, 0x1f, 0x94}
	keyL        = [32]byte{0xed, 0xd3, 0xf5, 0x5c, 0x1a, 0x63, 0x12, 0x58, 0xd6, 0x9c, 0xf7, 0xa2, 0xde, 0xf9, 0xde, 0x14, 0x00, 0x00, 0x00, 0x00, 0x00, 0x00, 0x00, 0x00, 0x00, 0x00, 0x00, 0x00, 0x00, 0x00, 0x00, 0x10}
	keyInvEight = [32]byte{0x79, 0x2f, 0xdc, 0xe2, 0x29, 0xe5, 0x06, 0x61, 0xd0, 0xda, 0x1c, 0x7d, 0xb3, 0x9d, 0xd3, 0x07, 0x00, 0x00, 0x00, 0x00, 0x00, 0x00, 0x00, 0x00, 0x00, 0x00, 0x00, 0x00, 0x00, 0x00, 0x00, 0x06}

	bigL = leToBig(keyL)

	ptH        = mustPoint(keyH)
	scInvEight = mustScalar(keyInvEight)
	scLMinus1  = mustScalar(scalarMinusOneBytes) // L-1, from the vendored scalar code
	scZero     = new(edScalar)
)

func mustPoint(b [32]byte) *edPoint {
	p, ok := decodePoint(b)
	if !ok {
		panic("xcrypto stand-in: bad point constant")
	}
	return p
}

func mustScalar(b [32]byte) *edScalar {
	s, err := new(edScalar).SetCanonicalBytes(b[:])
	if err != nil {
		panic("xcrypto stand-in: bad scalar constant")
	}
	return s
}

// ---------------------------------------------------------------------------------------------
// hashing

// keccak is cn_fast_hash: original Keccak-256 (padding 0x01, not SHA3-256) over the concatenation of parts.
// Self-contained on purpose: golang.org/x/crypto/sha3 at the version pinned by the repository casts byte
// slices to *[21]uint64 and aborts under -race/checkptr ("converted pointer straddles multiple allocations"),
// and harnesses do run this package under -race. Checked against the recorded hash table of
// xcrypto/data_test.go and against x/crypto in conformance_test.go.
func keccak(parts ...[]byte) (out [32]byte) {
	const rate = 136
	var st [25]uint64
	var buf [rate]byte
	n := 0
	absorb := func() {
		for i := 0; i < rate/8; i++ {
			st[i] ^= binary.LittleEndian.Uint64(buf[8*i:])
		}
		keccakF1600(&st)
		n = 0
	}
	for _, p := range parts {
		for len(p) > 0 {
			c := copy(buf[n:], p)
			n += c
			p = p[c:]
			if n == rate {
				absorb()
			}
		}
	}
	for i := n; i < rate; i++ {
		buf[i] = 0
	}
	buf[n] ^= 0x01
	buf[rate-1] ^= 0x80
	absorb()
	for i := 0; i < 4; i++ {
		binary.LittleEndian.PutUint64(out[8*i:], st[i])
	}
	return out
}

var keccakRC = [24]uint64{
	0x0000000000000001, 0x0000000000008082, 0x800000000000808a, 0x8000000080008000,
	0x000000000000808b, 0x0000000080000001, 0x8000000080008081, 0x8000000000008009,
	0x000000000000008a, 0x0000000000000088, 0x0000000080008009, 0x000000008000000a,
	0x000000008000808b, 0x800000000000008b, 0x8000000000008089, 0x8000000000008003,
	0x8000000000008002, 0x8000000000000080, 0x000000000000800a, 0x800000008000000a,
	0x8000000080008081, 0x8000000000008080, 0x0000000080000001, 0x8000000080008008,
}

var keccakRot = [24]int{1, 3, 6, 10, 15, 21, 28, 36, 45, 55, 2, 14, 27, 41, 56, 8, 25, 43, 62, 18, 39, 61, 20, 44}

var keccakPi = [24]int{10, 7, 11, 17, 18, 3, 5, 16, 8, 21, 24, 4, 15, 23, 19, 13, 12, 2, 20, 14, 22, 9, 6, 1}

// keccakF1600 is the Keccak-f[1600] permutation (24 rounds), textbook form.
func keccakF1600(st *[25]uint64) {
	var bc [5]uint64
	for round := 0; round < 24; round++ {
		// theta
		for i := 0; i < 5; i++ {
			bc[i] = st[i] ^ st[i+5] ^ st[i+10] ^ st[i+15] ^ st[i+20]
		}
		for i := 0; i < 5; i++ {
			t := bc[(i+4)%5] ^ bits.RotateLeft64(bc[(i+1)%5], 1)
			for j := 0; j < 25; j += 5 {
				st[j+i] ^= t
			}
		}
		// rho, pi
		t := st[1]
		for i := 0; i < 24; i++ {
			j := keccakPi[i]
			t, st[j] = st[j], bits.RotateLeft64(t, keccakRot[i])
		}
		// chi
		for j := 0; j < 25; j += 5 {
			copy(bc[:], st[j:j+5])
			for i := 0; i < 5; i++ {
				st[j+i] ^= ^bc[(i+1)%5] & bc[(i+2)%5]
			}
		}
		// iota
		st[0] ^= keccakRC[round]
	}
}

// hashToScalar is Monero's hash_to_scalar: keccak reduced mod L (sc_reduce32).
func hashToScalar(parts ...[]byte) *edScalar {
	return scReduce(keccak(parts...))
}

// varint is the CryptoNote/LEB128 variable-length integer encoding (tools::write_varint).
func varint(v uint64) []byte {
	var buf [binary.MaxVarintLen64]byte
	n := binary.PutUvarint(buf[:], v)
	return buf[:n]
}

// ---------------------------------------------------------------------------------------------
// scalars: 32 bytes little endian, arithmetic mod L

func leToBig(b [32]byte) *big.Int {
	var be [32]byte
	for i := 0; i < 32; i++ {
		be[31-i] = b[i]
	}
	return new(big.Int).SetBytes(be[:])
}

// scReduce is sc_reduce32: any 256-bit little-endian integer -> canonical scalar.
func scReduce(b [32]byte) *edScalar {
	if isReduced(b[:]) {
		s, _ := new(edScalar).SetCanonicalBytes(b[:])
		return s
	}
	var wide [64]byte
	copy(wide[:], b[:])
	s, _ := new(edScalar).SetUniformBytes(wide[:])
	return s
}

func scOut(s *edScalar) (out [32]byte) {
	copy(out[:], s.Bytes())
	return out
}

// scCheck is sc_check(): true iff b is a canonical scalar (< L).
func scCheck(b [32]byte) bool { return isReduced(b[:]) }

func scIsZero(s *edScalar) bool { return s.Equal(new(edScalar)) == 1 }

func scFromUint64(v uint64) *edScalar {
	var b [32]byte
	binary.LittleEndian.PutUint64(b[:8], v)
	s, _ := new(edScalar).SetCanonicalBytes(b[:])
	return s
}

// ---------------------------------------------------------------------------------------------
// points: compressed 32 bytes, decoded with the strictness of Monero's ge_frombytes_vartime

// decodePoint accepts exactly what ge_frombytes_vartime accepts: y canonical (< 2^255-19), y on the curve,
// and not (x == 0 with the sign bit set). The vendored SetBytes is more lenient on the first and last point,
// so both are checked here.
func decodePoint(b [32]byte) (*edPoint, bool) {
	// y >= p  <=>  bytes (sign bit cleared) are ff..ff with low byte >= 0xed and top byte 0x7f
	if b[31]&0x7f == 0x7f && b[0] >= 0xed {
		all := true
		for i := 1; i < 31; i++ {
			if b[i] != 0xff {
				all = false
				break
			}
		}
		if all {
			return nil, false
		}
	}
	p, err := new(edPoint).SetBytes(b[:])
	if err != nil {
		return nil, false
	}
	if b[31]>>7 == 1 && p.x.Equal(feZero) == 1 {
		return nil, false
	}
	return p, true
}

func encodePoint(p *edPoint) (out [32]byte) {
	copy(out[:], p.Bytes())
	return out
}

func ptIsIdentity(p *edPoint) bool { return p.Equal(newIdentityPoint()) == 1 }

func ptMul8(p *edPoint) *edPoint {
	r := new(edPoint).Add(p, p)
	r.Add(r, r)
	r.Add(r, r)
	return r
}

// mulExact computes s*P for s read as a plain 256-bit integer (NOT reduced mod L first), which is what
// ge_scalarmult does and what the repository relies on (`ScalarmultKey(keyImage, L) == identity` is a
// subgroup-membership test: for a point with a torsion component L*P != identity).
// s = q*L + r  =>  s*P = r*P + q*(L*P),  L*P = (L-1)*P + P.
func mulExact(s [32]byte, P *edPoint) *edPoint {
	if isReduced(s[:]) {
		sc, _ := new(edScalar).SetCanonicalBytes(s[:])
		return varTimeMul(sc, P)
	}
	q, r := new(big.Int).QuoRem(leToBig(s), bigL, new(big.Int))
	var rb [32]byte
	rbe := r.Bytes()
	for i := range rbe {
		rb[i] = rbe[len(rbe)-1-i]
	}
	rs, _ := new(edScalar).SetCanonicalBytes(rb[:])
	res := varTimeMul(rs, P)
	LP := varTimeMul(scLMinus1, P)
	LP.Add(LP, P)
	if ptIsIdentity(LP) {
		return res
	}
	for n := q.Int64(); n > 0; n-- { // q <= 15
		res.Add(res, LP)
	}
	return res
}

// varTimeMul computes a*A for a canonical scalar a in variable time (nothing here is secret: the
// stand-in only runs inside verification harnesses, and speed matters for exhaustive enumeration).
func varTimeMul(a *edScalar, A *edPoint) *edPoint {
	return new(edPoint).VarTimeDoubleScalarBaseMult(a, A, scZero)
}

// varTimeMul2 computes a*A + b*B in variable time (Straus, width-5 NAFs); same structure as the vendored
// VarTimeDoubleScalarBaseMult with a second per-point table instead of the base-point table.
func varTimeMul2(a *edScalar, A *edPoint, b *edScalar, B *edPoint) *edPoint {
	var aTable, bTable nafLookupTable5
	aTable.FromP3(A)
	bTable.FromP3(B)
	aNaf := a.nonAdjacentForm(5)
	bNaf := b.nonAdjacentForm(5)
	i := 255
	for ; i >= 0; i-- {
		if aNaf[i] != 0 || bNaf[i] != 0 {
			break
		}
	}
	mult := &projCached{}
	tmp1 := &projP1xP1{}
	tmp2 := &projP2{}
	tmp2.Zero()
	v := new(edPoint)
	for ; i >= 0; i-- {
		tmp1.Double(tmp2)
		if aNaf[i] > 0 {
			v.fromP1xP1(tmp1)
			aTable.SelectInto(mult, aNaf[i])
			tmp1.Add(v, mult)
		} else if aNaf[i] < 0 {
			v.fromP1xP1(tmp1)
			aTable.SelectInto(mult, -aNaf[i])
			tmp1.Sub(v, mult)
		}
		if bNaf[i] > 0 {
			v.fromP1xP1(tmp1)
			bTable.SelectInto(mult, bNaf[i])
			tmp1.Add(v, mult)
		} else if bNaf[i] < 0 {
			v.fromP1xP1(tmp1)
			bTable.SelectInto(mult, -bNaf[i])
			tmp1.Sub(v, mult)
		}
		tmp2.FromP1xP1(tmp1)
	}
	v.fromP2(tmp2)
	return v
}

// mulBase computes s*G (G has order exactly L, so reducing s first is exact).
func mulBase(s [32]byte) *edPoint { return new(edPoint).ScalarBaseMult(scReduce(s)) }

// ---------------------------------------------------------------------------------------------
// hash to point: Monero's hash_to_ec / hashToPoint = 8 * ge_fromfe_frombytes_vartime(keccak(data))

var (
	feA     = new(feElement).Mult32(new(feElement).One(), 486662) // Montgomery A
	feAA2   = new(feElement).Multiply(feA, new(feElement).Add(feA, new(feElement).Add(feOne, feOne)))
	fe2AA2  = new(feElement).Add(feAA2, feAA2)
	feNegA  = new(feElement).Negate(feA)
	feNegA2 = new(feElement).Negate(new(feElement).Square(feA))
	fe19    = new(feElement).Mult32(new(feElement).One(), 19)
)

// fromFeFromBytes is ge_fromfe_frombytes_vartime (crypto-ops.c): an Elligator-2 style map from a 256-bit
// string to a curve point. It is written from the algebra of the C code rather than from its control flow:
// with u = s mod p (all 256 bits are used), w = 2u^2+1, x = w^2 - 2A^2u^2, the C code computes
//
//	X^2 = 2A(A+2) u^2 w/x,  z = -2Au^2, sign 0     when w/x is a square,
//	X^2 =  A(A+2)     w/x,  z = -A,     sign 1     otherwise,
//
// normalises the sign of X to `sign` and returns the projective point (X*(z+w) : z-w : z+w).
// (The four constants fffb1..4 of the C code are the square roots that this function takes explicitly;
// their sign choice is erased by the sign normalisation.)
func fromFeFromBytes(s [32]byte) *edPoint {
	u, _ := new(feElement).SetBytes(s[:]) // ignores bit 255 ...
	if s[31]>>7 == 1 {
		u.Add(u, fe19) // ... which is worth 2^255 = 19 mod p
	}
	uu := new(feElement).Square(u)
	v := new(feElement).Add(uu, uu)   // 2u^2
	w := new(feElement).Add(v, feOne) // 2u^2+1
	x := new(feElement).Square(w)     // w^2
	t := new(feElement).Multiply(feNegA2, v)
	x.Add(x, t) // w^2 - 2A^2u^2

	X := new(feElement)
	z := new(feElement)
	sign := 0
	if _, sq := new(feElement).SqrtRatio(w, x); sq == 1 {
		num := new(feElement).Multiply(fe2AA2, uu)
		num.Multiply(num, w)
		_, ok := X.SqrtRatio(num, x)
		if ok != 1 {
			panic("xcrypto stand-in: hash-to-point: non-square in square branch")
		}
		z.Multiply(feNegA, v)
		sign = 0
	} else {
		num := new(feElement).Multiply(feAA2, w)
		_, ok := X.SqrtRatio(num, x)
		if ok != 1 {
			panic("xcrypto stand-in: hash-to-point: non-square in non-square branch")
		}
		z.Set(feNegA)
		sign = 1
	}
	if X.IsNegative() != sign {
		X.Negate(X)
	}
	Z := new(feElement).Add(z, w)
	Y := new(feElement).Subtract(z, w)
	X.Multiply(X, Z)
	// projective (X:Y:Z) -> extended (XZ : YZ : Z^2 : XY)
	p := new(edPoint)
	p.x.Multiply(X, Z)
	p.y.Multiply(Y, Z)
	p.z.Square(Z)
	p.t.Multiply(X, Y)
	return p
}

// hashToEC is hash_to_ec(key) / rct::hashToPoint(key): 8 * fromfe(keccak(key)).
func hashToEC(key [32]byte) *edPoint {
	return ptMul8(fromFeFromBytes(keccak(key[:])))
}

// ---------------------------------------------------------------------------------------------
// deterministic generator (replaces the library's CSPRNG so that runs are reproducible)
//
// There is one process-wide generator (VerifSetSeed) and, for harnesses that build transactions on several
// goroutines at once, optional goroutine-local generators (VerifSetLocalSeed): a goroutine that has set a
// local seed draws from its own stream, so its outputs do not depend on how other goroutines interleave.

type rngState struct {
	seed, ctr uint64
}

var (
	rngMu     sync.Mutex
	rngGlobal = rngState{seed: 1}
	rngLocal  = map[uint64]*rngState{} // goroutine id -> generator
	rngLocalN int32                    // len(rngLocal), read without the lock on the fast path
)

// VerifSetSeed re-seeds the process-wide deterministic generator behind SkGen/SkpkGen (and the nonces of
// the signature provers) and resets its counter. Same seed + same call sequence => same outputs.
func VerifSetSeed(seed uint64) {
	rngMu.Lock()
	rngGlobal = rngState{seed: seed}
	rngMu.Unlock()
}

// VerifRngState returns (seed, number of scalars drawn so far) of the generator the calling goroutine uses.
func VerifRngState() (seed, counter uint64) {
	rngMu.Lock()
	defer rngMu.Unlock()
	g := rngFor()
	return g.seed, g.ctr
}

// VerifSetRngState restores a state returned by VerifRngState (into the generator the caller uses).
func VerifSetRngState(seed, counter uint64) {
	rngMu.Lock()
	*rngFor() = rngState{seed: seed, ctr: counter}
	rngMu.Unlock()
}

// VerifSetLocalSeed gives the CALLING goroutine its own generator (seed, counter 0). Until
// VerifClearLocalSeed is called on the same goroutine, every draw made on it uses that generator.
// Goroutines started by the code under test do not inherit it (they use the process-wide generator);
// in the repository only verification runs on extra goroutines, and verification draws nothing.
func VerifSetLocalSeed(seed uint64) {
	id := goroutineID()
	rngMu.Lock()
	rngLocal[id] = &rngState{seed: seed}
	atomic.StoreInt32(&rngLocalN, int32(len(rngLocal)))
	rngMu.Unlock()
}

// VerifClearLocalSeed removes the calling goroutine's generator (call it before the goroutine ends).
func VerifClearLocalSeed() {
	id := goroutineID()
	rngMu.Lock()
	delete(rngLocal, id)
	atomic.StoreInt32(&rngLocalN, int32(len(rngLocal)))
	rngMu.Unlock()
}

// rngFor returns the generator of the calling goroutine; rngMu must be held.
func rngFor() *rngState {
	if len(rngLocal) != 0 {
		if g, ok := rngLocal[goroutineID()]; ok {
			return g
		}
	}
	return &rngGlobal
}

// goroutineID parses "goroutine N [" from the stack header (only used when a local seed exists).
func goroutineID() uint64 {
	var buf [64]byte
	n := runtime.Stack(buf[:], false)
	var id uint64
	for _, c := range buf[len("goroutine "):n] {
		if c < '0' || c > '9' {
			break
		}
		id = id*10 + uint64(c-'0')
	}
	return id
}

// randScalar returns the next non-zero scalar of the counter-based generator:
// reduce512(keccak(dom0|seed|ctr) | keccak(dom1|seed|ctr)).
func randScalar() *edScalar {
	for {
		var g *rngState
		if atomic.LoadInt32(&rngLocalN) == 0 {
			rngMu.Lock()
			g = &rngGlobal
		} else {
			id := goroutineID()
			rngMu.Lock()
			var ok bool
			if g, ok = rngLocal[id]; !ok {
				g = &rngGlobal
			}
		}
		seed, ctr := g.seed, g.ctr
		g.ctr++
		rngMu.Unlock()
		var in [16]byte
		binary.LittleEndian.PutUint64(in[:8], seed)
		binary.LittleEndian.PutUint64(in[8:], ctr)
		h0 := keccak([]byte("verif/xcrypto/rng/0"), in[:])
		h1 := keccak([]byte("verif/xcrypto/rng/1"), in[:])
		var wide [64]byte
		copy(wide[:32], h0[:])
		copy(wide[32:], h1[:])
		s, _ := new(edScalar).SetUniformBytes(wide[:])
		if !scIsZero(s) {
			return s
		}
	}
}
