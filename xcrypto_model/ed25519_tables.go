//go:build go1.21

// Code vendored by vendor_ed25519.sh from Go go1.23.5 crypto/internal/edwards25519/tables.go; DO NOT EDIT.
// Flattened into package xcrypto (identifiers renamed, see vendor_ed25519.sh); arithmetic unchanged.
// Licence: BSD-3-Clause, see LICENSE-go.txt in this directory.

// Copyright (c) 2019 The Go Authors. All rights reserved.
// Use of this source code is governed by a BSD-style
// license that can be found in the LICENSE file.

package xcrypto

import (
	"crypto/subtle"
)

// A dynamic lookup table for variable-base, constant-time scalar muls.
type projLookupTable struct {
	points [8]projCached
}

// A precomputed lookup table for fixed-base, constant-time scalar muls.
type affineLookupTable struct {
	points [8]affineCached
}

// A dynamic lookup table for variable-base, variable-time scalar muls.
type nafLookupTable5 struct {
	points [8]projCached
}

// A precomputed lookup table for fixed-base, variable-time scalar muls.
type nafLookupTable8 struct {
	points [64]affineCached
}

// Constructors.

// Builds a lookup table at runtime. Fast.
func (v *projLookupTable) FromP3(q *edPoint) {
	// Goal: v.points[i] = (i+1)*Q, i.e., Q, 2Q, ..., 8Q
	// This allows lookup of -8Q, ..., -Q, 0, Q, ..., 8Q
	v.points[0].FromP3(q)
	tmpP3 := edPoint{}
	tmpP1xP1 := projP1xP1{}
	for i := 0; i < 7; i++ {
		// Compute (i+1)*Q as Q + i*Q and convert to a projCached
		// This is needlessly complicated because the API has explicit
		// receivers instead of creating stack objects and relying on RVO
		v.points[i+1].FromP3(tmpP3.fromP1xP1(tmpP1xP1.Add(q, &v.points[i])))
	}
}

// This is not optimised for speed; fixed-base tables should be precomputed.
func (v *affineLookupTable) FromP3(q *edPoint) {
	// Goal: v.points[i] = (i+1)*Q, i.e., Q, 2Q, ..., 8Q
	// This allows lookup of -8Q, ..., -Q, 0, Q, ..., 8Q
	v.points[0].FromP3(q)
	tmpP3 := edPoint{}
	tmpP1xP1 := projP1xP1{}
	for i := 0; i < 7; i++ {
		// Compute (i+1)*Q as Q + i*Q and convert to affineCached
		v.points[i+1].FromP3(tmpP3.fromP1xP1(tmpP1xP1.AddAffine(q, &v.points[i])))
	}
}

// Builds a lookup table at runtime. Fast.
func (v *nafLookupTable5) FromP3(q *edPoint) {
	// Goal: v.points[i] = (2*i+1)*Q, i.e., Q, 3Q, 5Q, ..., 15Q
	// This allows lookup of -15Q, ..., -3Q, -Q, 0, Q, 3Q, ..., 15Q
	v.points[0].FromP3(q)
	q2 := edPoint{}
	q2.Add(q, q)
	tmpP3 := edPoint{}
	tmpP1xP1 := projP1xP1{}
	for i := 0; i < 7; i++ {
		v.points[i+1].FromP3(tmpP3.fromP1xP1(tmpP1xP1.Add(&q2, &v.points[i])))
	}
}

// This is not optimised for speed; fixed-base tables should be precomputed.
func (v *nafLookupTable8) FromP3(q *edPoint) {
	v.points[0].FromP3(q)
	q2 := edPoint{}
	q2.Add(q, q)
	tmpP3 := edPoint{}
	tmpP1xP1 := projP1xP1{}
	for i := 0; i < 63; i++ {
		v.points[i+1].FromP3(tmpP3.fromP1xP1(tmpP1xP1.AddAffine(&q2, &v.points[i])))
	}
}

// Selectors.

// Set dest to x*Q, where -8 <= x <= 8, in constant time.
func (v *projLookupTable) SelectInto(dest *projCached, x int8) {
	// Compute xabs = |x|
	xmask := x >> 7
	xabs := uint8((x + xmask) ^ xmask)

	dest.Zero()
	for j := 1; j <= 8; j++ {
		// Set dest = j*Q if |x| = j
		cond := subtle.ConstantTimeByteEq(xabs, uint8(j))
		dest.Select(&v.points[j-1], dest, cond)
	}
	// Now dest = |x|*Q, conditionally negate to get x*Q
	dest.CondNeg(int(xmask & 1))
}

// Set dest to x*Q, where -8 <= x <= 8, in constant time.
func (v *affineLookupTable) SelectInto(dest *affineCached, x int8) {
	// Compute xabs = |x|
	xmask := x >> 7
	xabs := uint8((x + xmask) ^ xmask)

	dest.Zero()
	for j := 1; j <= 8; j++ {
		// Set dest = j*Q if |x| = j
		cond := subtle.ConstantTimeByteEq(xabs, uint8(j))
		dest.Select(&v.points[j-1], dest, cond)
	}
	// Now dest = |x|*Q, conditionally negate to get x*Q
	dest.CondNeg(int(xmask & 1))
}

// Given odd x with 0 < x < 2^4, return x*Q (in variable time).
func (v *nafLookupTable5) SelectInto(dest *projCached, x int8) {
	*dest = v.points[x/2]
}

// Given odd x with 0 < x < 2^7, return x*Q (in variable time).
func (v *nafLookupTable8) SelectInto(dest *affineCached, x int8) {
	*dest = v.points[x/2]
}
