//go:build go1.21

// Code vendored by vendor_ed25519.sh from Go go1.23.5 crypto/internal/edwards25519/edwards25519.go; DO NOT EDIT.
// Flattened into package xcrypto (identifiers renamed, see vendor_ed25519.sh); arithmetic unchanged.
// Licence: BSD-3-Clause, see LICENSE-go.txt in this directory.

// Copyright (c) 2017 The Go Authors. All rights reserved.
// Use of this source code is governed by a BSD-style
// license that can be found in the LICENSE file.

package xcrypto

import (
	"errors"
)

// edPoint types.

type projP1xP1 struct {
	X, Y, Z, T feElement
}

type projP2 struct {
	X, Y, Z feElement
}

// edPoint represents a point on the edwards25519 curve.
//
// This type works similarly to math/big.Int, and all arguments and receivers
// are allowed to alias.
//
// The zero value is NOT valid, and it may be used only as a receiver.
type edPoint struct {
	// Make the type not comparable (i.e. used with == or as a map key), as
	// equivalent points can be represented by different Go values.
	_ incomparable

	// The point is internally represented in extended coordinates (X, Y, Z, T)
	// where x = X/Z, y = Y/Z, and xy = T/Z per https://eprint.iacr.org/2008/522.
	x, y, z, t feElement
}

type incomparable [0]func()

func checkInitialized(points ...*edPoint) {
	for _, p := range points {
		if p.x == (feElement{}) && p.y == (feElement{}) {
			panic("edwards25519: use of uninitialized edPoint")
		}
	}
}

type projCached struct {
	YplusX, YminusX, Z, T2d feElement
}

type affineCached struct {
	YplusX, YminusX, T2d feElement
}

// Constructors.

func (v *projP2) Zero() *projP2 {
	v.X.Zero()
	v.Y.One()
	v.Z.One()
	return v
}

// identity is the point at infinity.
var identity, _ = new(edPoint).SetBytes([]byte{
	1, 0, 0, 0, 0, 0, 0, 0, 0, 0, 0, 0, 0, 0, 0, 0,
	0, 0, 0, 0, 0, 0, 0, 0, 0, 0, 0, 0, 0, 0, 0, 0})

// newIdentityPoint returns a new edPoint set to the identity.
func newIdentityPoint() *edPoint {
	return new(edPoint).Set(identity)
}

// generator is the canonical curve basepoint. See TestGenerator for the
// correspondence of this encoding with the values in RFC 8032.
var generator, _ = new(edPoint).SetBytes([]byte{
	0x58, 0x66, 0x66, 0x66, 0x66, 0x66, 0x66, 0x66,
	0x66, 0x66, 0x66, 0x66, 0x66, 0x66, 0x66, 0x66,
	0x66, 0x66, 0x66, 0x66, 0x66, 0x66, 0x66, 0x66,
	0x66, 0x66, 0x66, 0x66, 0x66, 0x66, 0x66, 0x66})

// newGeneratorPoint returns a new edPoint set to the canonical generator.
func newGeneratorPoint() *edPoint {
	return new(edPoint).Set(generator)
}

func (v *projCached) Zero() *projCached {
	v.YplusX.One()
	v.YminusX.One()
	v.Z.One()
	v.T2d.Zero()
	return v
}

func (v *affineCached) Zero() *affineCached {
	v.YplusX.One()
	v.YminusX.One()
	v.T2d.Zero()
	return v
}

// Assignments.

// Set sets v = u, and returns v.
func (v *edPoint) Set(u *edPoint) *edPoint {
	*v = *u
	return v
}

// Encoding.

// Bytes returns the canonical 32-byte encoding of v, according to RFC 8032,
// Section 5.1.2.
func (v *edPoint) Bytes() []byte {
	// This function is outlined to make the allocations inline in the caller
	// rather than happen on the heap.
	var buf [32]byte
	return v.bytes(&buf)
}

func (v *edPoint) bytes(buf *[32]byte) []byte {
	checkInitialized(v)

	var zInv, x, y feElement
	zInv.Invert(&v.z)       // zInv = 1 / Z
	x.Multiply(&v.x, &zInv) // x = X / Z
	y.Multiply(&v.y, &zInv) // y = Y / Z

	out := copyFieldElement(buf, &y)
	out[31] |= byte(x.IsNegative() << 7)
	return out
}

// SetBytes sets v = x, where x is a 32-byte encoding of v. If x does not
// represent a valid point on the curve, SetBytes returns nil and an error and
// the receiver is unchanged. Otherwise, SetBytes returns v.
//
// Note that SetBytes accepts all non-canonical encodings of valid points.
// That is, it follows decoding rules that match most implementations in
// the ecosystem rather than RFC 8032.
func (v *edPoint) SetBytes(x []byte) (*edPoint, error) {
	// Specifically, the non-canonical encodings that are accepted are
	//   1) the ones where the field element is not reduced (see the
	//      (*feElement).SetBytes docs) and
	//   2) the ones where the x-coordinate is zero and the sign bit is set.
	//
	// Read more at https://hdevalence.ca/blog/2020-10-04-its-25519am,
	// specifically the "Canonical A, R" section.

	y, err := new(feElement).SetBytes(x)
	if err != nil {
		return nil, errors.New("edwards25519: invalid point encoding length")
	}

	// -x² + y² = 1 + dx²y²
	// x² + dx²y² = x²(dy² + 1) = y² - 1
	// x² = (y² - 1) / (dy² + 1)

	// u = y² - 1
	y2 := new(feElement).Square(y)
	u := new(feElement).Subtract(y2, feOne)

	// v = dy² + 1
	vv := new(feElement).Multiply(y2, d)
	vv = vv.Add(vv, feOne)

	// x = +√(u/v)
	xx, wasSquare := new(feElement).SqrtRatio(u, vv)
	if wasSquare == 0 {
		return nil, errors.New("edwards25519: invalid point encoding")
	}

	// Select the negative square root if the sign bit is set.
	xxNeg := new(feElement).Negate(xx)
	xx = xx.Select(xxNeg, xx, int(x[31]>>7))

	v.x.Set(xx)
	v.y.Set(y)
	v.z.One()
	v.t.Multiply(xx, y) // xy = T / Z

	return v, nil
}

func copyFieldElement(buf *[32]byte, v *feElement) []byte {
	copy(buf[:], v.Bytes())
	return buf[:]
}

// Conversions.

func (v *projP2) FromP1xP1(p *projP1xP1) *projP2 {
	v.X.Multiply(&p.X, &p.T)
	v.Y.Multiply(&p.Y, &p.Z)
	v.Z.Multiply(&p.Z, &p.T)
	return v
}

func (v *projP2) FromP3(p *edPoint) *projP2 {
	v.X.Set(&p.x)
	v.Y.Set(&p.y)
	v.Z.Set(&p.z)
	return v
}

func (v *edPoint) fromP1xP1(p *projP1xP1) *edPoint {
	v.x.Multiply(&p.X, &p.T)
	v.y.Multiply(&p.Y, &p.Z)
	v.z.Multiply(&p.Z, &p.T)
	v.t.Multiply(&p.X, &p.Y)
	return v
}

func (v *edPoint) fromP2(p *projP2) *edPoint {
	v.x.Multiply(&p.X, &p.Z)
	v.y.Multiply(&p.Y, &p.Z)
	v.z.Square(&p.Z)
	v.t.Multiply(&p.X, &p.Y)
	return v
}

// d is a constant in the curve equation.
var d, _ = new(feElement).SetBytes([]byte{
	0xa3, 0x78, 0x59, 0x13, 0xca, 0x4d, 0xeb, 0x75,
	0xab, 0xd8, 0x41, 0x41, 0x4d, 0x0a, 0x70, 0x00,
	0x98, 0xe8, 0x79, 0x77, 0x79, 0x40, 0xc7, 0x8c,
	0x73, 0xfe, 0x6f, 0x2b, 0xee, 0x6c, 0x03, 0x52})
var d2 = new(feElement).Add(d, d)

func (v *projCached) FromP3(p *edPoint) *projCached {
	v.YplusX.Add(&p.y, &p.x)
	v.YminusX.Subtract(&p.y, &p.x)
	v.Z.Set(&p.z)
	v.T2d.Multiply(&p.t, d2)
	return v
}

func (v *affineCached) FromP3(p *edPoint) *affineCached {
	v.YplusX.Add(&p.y, &p.x)
	v.YminusX.Subtract(&p.y, &p.x)
	v.T2d.Multiply(&p.t, d2)

	var invZ feElement
	invZ.Invert(&p.z)
	v.YplusX.Multiply(&v.YplusX, &invZ)
	v.YminusX.Multiply(&v.YminusX, &invZ)
	v.T2d.Multiply(&v.T2d, &invZ)
	return v
}

// (Re)addition and subtraction.

// Add sets v = p + q, and returns v.
func (v *edPoint) Add(p, q *edPoint) *edPoint {
	checkInitialized(p, q)
	qCached := new(projCached).FromP3(q)
	result := new(projP1xP1).Add(p, qCached)
	return v.fromP1xP1(result)
}

// Subtract sets v = p - q, and returns v.
func (v *edPoint) Subtract(p, q *edPoint) *edPoint {
	checkInitialized(p, q)
	qCached := new(projCached).FromP3(q)
	result := new(projP1xP1).Sub(p, qCached)
	return v.fromP1xP1(result)
}

func (v *projP1xP1) Add(p *edPoint, q *projCached) *projP1xP1 {
	var YplusX, YminusX, PP, MM, TT2d, ZZ2 feElement

	YplusX.Add(&p.y, &p.x)
	YminusX.Subtract(&p.y, &p.x)

	PP.Multiply(&YplusX, &q.YplusX)
	MM.Multiply(&YminusX, &q.YminusX)
	TT2d.Multiply(&p.t, &q.T2d)
	ZZ2.Multiply(&p.z, &q.Z)

	ZZ2.Add(&ZZ2, &ZZ2)

	v.X.Subtract(&PP, &MM)
	v.Y.Add(&PP, &MM)
	v.Z.Add(&ZZ2, &TT2d)
	v.T.Subtract(&ZZ2, &TT2d)
	return v
}

func (v *projP1xP1) Sub(p *edPoint, q *projCached) *projP1xP1 {
	var YplusX, YminusX, PP, MM, TT2d, ZZ2 feElement

	YplusX.Add(&p.y, &p.x)
	YminusX.Subtract(&p.y, &p.x)

	PP.Multiply(&YplusX, &q.YminusX) // flipped sign
	MM.Multiply(&YminusX, &q.YplusX) // flipped sign
	TT2d.Multiply(&p.t, &q.T2d)
	ZZ2.Multiply(&p.z, &q.Z)

	ZZ2.Add(&ZZ2, &ZZ2)

	v.X.Subtract(&PP, &MM)
	v.Y.Add(&PP, &MM)
	v.Z.Subtract(&ZZ2, &TT2d) // flipped sign
	v.T.Add(&ZZ2, &TT2d)      // flipped sign
	return v
}

func (v *projP1xP1) AddAffine(p *edPoint, q *affineCached) *projP1xP1 {
	var YplusX, YminusX, PP, MM, TT2d, Z2 feElement

	YplusX.Add(&p.y, &p.x)
	YminusX.Subtract(&p.y, &p.x)

	PP.Multiply(&YplusX, &q.YplusX)
	MM.Multiply(&YminusX, &q.YminusX)
	TT2d.Multiply(&p.t, &q.T2d)

	Z2.Add(&p.z, &p.z)

	v.X.Subtract(&PP, &MM)
	v.Y.Add(&PP, &MM)
	v.Z.Add(&Z2, &TT2d)
	v.T.Subtract(&Z2, &TT2d)
	return v
}

func (v *projP1xP1) SubAffine(p *edPoint, q *affineCached) *projP1xP1 {
	var YplusX, YminusX, PP, MM, TT2d, Z2 feElement

	YplusX.Add(&p.y, &p.x)
	YminusX.Subtract(&p.y, &p.x)

	PP.Multiply(&YplusX, &q.YminusX) // flipped sign
	MM.Multiply(&YminusX, &q.YplusX) // flipped sign
	TT2d.Multiply(&p.t, &q.T2d)

	Z2.Add(&p.z, &p.z)

	v.X.Subtract(&PP, &MM)
	v.Y.Add(&PP, &MM)
	v.Z.Subtract(&Z2, &TT2d) // flipped sign
	v.T.Add(&Z2, &TT2d)      // flipped sign
	return v
}

// Doubling.

func (v *projP1xP1) Double(p *projP2) *projP1xP1 {
	var XX, YY, ZZ2, XplusYsq feElement

	XX.Square(&p.X)
	YY.Square(&p.Y)
	ZZ2.Square(&p.Z)
	ZZ2.Add(&ZZ2, &ZZ2)
	XplusYsq.Add(&p.X, &p.Y)
	XplusYsq.Square(&XplusYsq)

	v.Y.Add(&YY, &XX)
	v.Z.Subtract(&YY, &XX)

	v.X.Subtract(&XplusYsq, &v.Y)
	v.T.Subtract(&ZZ2, &v.Z)
	return v
}

// Negation.

// Negate sets v = -p, and returns v.
func (v *edPoint) Negate(p *edPoint) *edPoint {
	checkInitialized(p)
	v.x.Negate(&p.x)
	v.y.Set(&p.y)
	v.z.Set(&p.z)
	v.t.Negate(&p.t)
	return v
}

// Equal returns 1 if v is equivalent to u, and 0 otherwise.
func (v *edPoint) Equal(u *edPoint) int {
	checkInitialized(v, u)

	var t1, t2, t3, t4 feElement
	t1.Multiply(&v.x, &u.z)
	t2.Multiply(&u.x, &v.z)
	t3.Multiply(&v.y, &u.z)
	t4.Multiply(&u.y, &v.z)

	return t1.Equal(&t2) & t3.Equal(&t4)
}

// Constant-time operations

// Select sets v to a if cond == 1 and to b if cond == 0.
func (v *projCached) Select(a, b *projCached, cond int) *projCached {
	v.YplusX.Select(&a.YplusX, &b.YplusX, cond)
	v.YminusX.Select(&a.YminusX, &b.YminusX, cond)
	v.Z.Select(&a.Z, &b.Z, cond)
	v.T2d.Select(&a.T2d, &b.T2d, cond)
	return v
}

// Select sets v to a if cond == 1 and to b if cond == 0.
func (v *affineCached) Select(a, b *affineCached, cond int) *affineCached {
	v.YplusX.Select(&a.YplusX, &b.YplusX, cond)
	v.YminusX.Select(&a.YminusX, &b.YminusX, cond)
	v.T2d.Select(&a.T2d, &b.T2d, cond)
	return v
}

// CondNeg negates v if cond == 1 and leaves it unchanged if cond == 0.
func (v *projCached) CondNeg(cond int) *projCached {
	v.YplusX.Swap(&v.YminusX, cond)
	v.T2d.Select(new(feElement).Negate(&v.T2d), &v.T2d, cond)
	return v
}

// CondNeg negates v if cond == 1 and leaves it unchanged if cond == 0.
func (v *affineCached) CondNeg(cond int) *affineCached {
	v.YplusX.Swap(&v.YminusX, cond)
	v.T2d.Select(new(feElement).Negate(&v.T2d), &v.T2d, cond)
	return v
}
