------------------------------ MODULE TMDiscipline ------------------------------
(* The voting discipline L0-L4 that C01-local checks on the real ConsensusState, as the MOST GENERAL  *)
(* process obeying it, composed with a Byzantine minority, and the Agreement invariant.               *)
(* Messages live in a monotone soup (sets only grow): a guard "a quorum exists in the soup" therefore *)
(* covers every delivery order, delay, loss and duplication. All messages a Byzantine process could   *)
(* ever send are in the soup from the start (strongest adversary in a monotone model).                *)
EXTENDS Integers, FiniteSets, TLC

CONSTANTS Corr,      \* correct processes
          Byz,       \* Byzantine processes
          MaxRound,  \* rounds 0..MaxRound
          Values     \* proposable block values (model values); NilV is "nil"

NilV == "nil"
Proc == Corr \cup Byz
Rounds == 0..MaxRound
AllV == Values \cup {NilV}
N == Cardinality(Proc)

VARIABLES prevotes,    \* set of <<p, r, v>>
          precommits,  \* set of <<p, r, v>>
          decision     \* [Corr -> Values \cup {"none"}]
vars == <<prevotes, precommits, decision>>

ByzMsgs == {<<p, r, v>> : p \in Byz, r \in Rounds, v \in AllV}

Init == /\ prevotes = ByzMsgs
        /\ precommits = ByzMsgs
        /\ decision = [p \in Corr |-> "none"]

\* equal voting power: more than two thirds of N processes
Quorum(S) == 3 * Cardinality(S) > 2 * N
Voters(msgs, r, v) == {p \in Proc : <<p, r, v>> \in msgs}
Polka(r, v) == Quorum(Voters(prevotes, r, v))
CommitQ(r, v) == Quorum(Voters(precommits, r, v))

HasPrevote(p, r) == \E v \in AllV : <<p, r, v>> \in prevotes
HasPrecommit(p, r) == \E v \in AllV : <<p, r, v>> \in precommits

\* the lock of p: its highest-round non-nil precommit
LockRounds(p) == {r \in Rounds : \E v \in Values : <<p, r, v>> \in precommits}
Locked(p) == LockRounds(p) # {}
LockRound(p) == CHOOSE r \in LockRounds(p) : \A r2 \in LockRounds(p) : r2 <= r
LockValue(p) == CHOOSE v \in Values : <<p, LockRound(p), v>> \in precommits

\* L0/L1: votes are signed in non-decreasing (round, type) order, at most one per (round, type)
PrevoteOrderOK(p, r) == /\ ~HasPrevote(p, r)
                        /\ \A r2 \in Rounds : (r2 > r => ~HasPrevote(p, r2)) /\ (r2 >= r => ~HasPrecommit(p, r2))
PrecommitOrderOK(p, r) == /\ ~HasPrecommit(p, r)
                          /\ \A r2 \in Rounds : r2 > r => (~HasPrevote(p, r2) /\ ~HasPrecommit(p, r2))

\* L3: no prevote against the own lock without a later proof-of-lock for another value
LockAllows(p, r, v) ==
    IF ~Locked(p) THEN TRUE
    ELSE \/ LockRound(p) >= r
         \/ v = LockValue(p)
         \/ \E r2 \in Rounds : /\ LockRound(p) < r2 /\ r2 <= r
                               /\ \E w \in AllV : w # LockValue(p) /\ Polka(r2, w)

PrevoteEnabled(p, r, v) == PrevoteOrderOK(p, r) /\ LockAllows(p, r, v)
\* L2: precommit a block only on a polka for it in this round
PrecommitEnabled(p, r, v) == PrecommitOrderOK(p, r) /\ (v = NilV \/ Polka(r, v))
\* L4: decide only on a commit quorum in one round
DecideEnabled(p, v) == decision[p] = "none" /\ \E r \in Rounds : CommitQ(r, v)

Prevote(p, r, v) == /\ PrevoteEnabled(p, r, v)
                    /\ prevotes' = prevotes \cup {<<p, r, v>>}
                    /\ UNCHANGED <<precommits, decision>>
Precommit(p, r, v) == /\ PrecommitEnabled(p, r, v)
                      /\ precommits' = precommits \cup {<<p, r, v>>}
                      /\ UNCHANGED <<prevotes, decision>>
Decide(p, v) == /\ DecideEnabled(p, v)
                /\ decision' = [decision EXCEPT ![p] = v]
                /\ UNCHANGED <<prevotes, precommits>>

Next == \E p \in Corr :
          \/ \E r \in Rounds, v \in AllV : Prevote(p, r, v) \/ Precommit(p, r, v)
          \/ \E v \in Values : Decide(p, v)

Spec == Init /\ [][Next]_vars

Agreement == \A p, q \in Corr : (decision[p] # "none" /\ decision[q] # "none") => decision[p] = decision[q]

\* non-vacuity probes (expected to be VIOLATED when checked as invariants: they show reachability)
NoDecision == \A p \in Corr : decision[p] = "none"
NoDecisionAfterRound0 == \A p \in Corr : decision[p] = "none" \/ CommitQ(0, decision[p])
NoRelock == \A p \in Corr : Cardinality(LockRounds(p)) <= 1

\* weakened disciplines, used (through cfg definition overrides) to show the model is sensitive to each rule
NoLockRule(p, r, v) == TRUE
WeakPolka(r, v) == 2 * Cardinality(Voters(prevotes, r, v)) >= N

Symm == Permutations(Corr) \cup Permutations(Values)
SymmCorr == Permutations(Corr)
=================================================================================
