CONSTANTS
  Corr = {c1, c2, c3}
  Byz = {b1}
  MaxRound = 1
  Values = {A}
SYMMETRY SymmCorr
INIT Init
NEXT Next
INVARIANT Agreement
