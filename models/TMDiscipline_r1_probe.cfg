CONSTANTS
  Corr = {c1, c2, c3}
  Byz = {b1}
  MaxRound = 1
  Values = {A, B}
SYMMETRY Symm
INIT Init
NEXT Next
INVARIANT NoDecisionAfterRound0
