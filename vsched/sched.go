// Package vsched is a cooperative scheduler for systematic concurrency testing (verification builds only;
// injected into the repository as a virtual package through the build overlay). Instrumented repo files import
// the shim packages vsched/sync and vsched/atomic instead of sync and sync/atomic; every shim operation calls
// Point first. When no scheduler is active, or the calling goroutine is not managed by it, every shim passes
// straight through to the real primitive.
package vsched

import (
	"fmt"
	"runtime"
	realsync "sync"
	"sync/atomic"
	"time"
)

// Thread is one managed goroutine.
type Thread struct {
	ID      int
	Name    string
	s       *Sched
	wake    chan struct{}
	enabled func() bool // nil = always enabled
	yielded bool        // parked at a yield point (sleep/spin): the scheduler prefers other threads
	done    bool
	started bool
	Panic   interface{}
	points  int
}

// Sched runs managed threads one at a time.
type Sched struct {
	mu      realsync.Mutex
	threads []*Thread
	cur     *Thread
	parked  chan *Thread
	// Choose picks the next thread: ids are the enabled thread ids in canonical order (the running thread
	// first if it is still enabled and did not yield, then ascending), preempt says whether picking ids[k>0]
	// preempts a runnable thread. It returns the index into ids.
	Choose   func(ids []int, preempt bool) int
	Trace    []int // thread id chosen at every scheduling point
	Points   int
	aborted  bool
	Deadlock bool
	Stuck    string
}

// Several schedulers may run concurrently in one process (one per explored execution): managed goroutines are
// found through a process-wide registry keyed by goroutine id.
var (
	nActive  int32
	registry realsync.Map // goroutine id -> *Thread
)

func goid() int64 {
	var buf [64]byte
	n := runtime.Stack(buf[:], false)
	// "goroutine 123 ["
	var id int64
	for i := len("goroutine "); i < n && buf[i] >= '0' && buf[i] <= '9'; i++ {
		id = id*10 + int64(buf[i]-'0')
	}
	return id
}

// Current returns the managed thread of the calling goroutine, or nil.
func Current() *Thread {
	if atomic.LoadInt32(&nActive) == 0 {
		return nil
	}
	if v, ok := registry.Load(goid()); ok {
		return v.(*Thread)
	}
	return nil
}

// New creates a scheduler.
func New(choose func(ids []int, preempt bool) int) *Sched {
	atomic.AddInt32(&nActive, 1)
	return &Sched{parked: make(chan *Thread, 64), Choose: choose}
}

type abortSignal struct{}

func (s *Sched) spawn(name string, f func()) *Thread {
	s.mu.Lock()
	t := &Thread{ID: len(s.threads), Name: name, s: s, wake: make(chan struct{}, 1)}
	s.threads = append(s.threads, t)
	s.mu.Unlock()
	ready := make(chan struct{})
	go func() {
		g := goid()
		registry.Store(g, t)
		defer registry.Delete(g)
		close(ready)
		<-t.wake // first scheduling
		defer func() {
			if e := recover(); e != nil {
				if _, ok := e.(abortSignal); !ok {
					t.Panic = e
				}
			}
			t.done = true
			s.parked <- t
		}()
		if s.aborted {
			panic(abortSignal{})
		}
		f()
	}()
	<-ready
	return t
}

// Go adds a thread before Run.
func (s *Sched) Go(name string, f func()) { s.spawn(name, f) }

// Go replaces the go statement in instrumented code: under an active scheduler, called from a managed thread,
// the new goroutine becomes a managed thread; otherwise it is a plain goroutine.
func Go(f func()) {
	if t := Current(); t != nil {
		t.s.spawn(fmt.Sprintf("%s/child", t.Name), f)
		return
	}
	go f()
}

// Point is a scheduling point of the calling managed thread: it parks until the scheduler picks it again, and is
// only picked when enabled() holds (nil = always). The caller performs its operation right after Point returns;
// no other managed thread runs in between.
func (t *Thread) Point(enabled func() bool) {
	t.enabled = enabled
	t.points++
	t.s.parked <- t
	<-t.wake
	t.enabled = nil
	t.yielded = false
	if t.s.aborted {
		panic(abortSignal{})
	}
}

// Yield is a scheduling point at which the thread says it cannot make progress by itself (sleep in a polling
// loop): the scheduler switches to another enabled thread at no preemption cost.
func (t *Thread) Yield() {
	t.yielded = true
	t.Point(nil)
}

// Sleep replaces time.Sleep in instrumented code.
func Sleep(d time.Duration) {
	if t := Current(); t != nil {
		t.Yield()
		return
	}
	time.Sleep(d)
}

// Run schedules the threads until all are done, a deadlock is found, or a thread does not come back to the
// scheduler within the watchdog time (blocked on something the scheduler does not see).
func (s *Sched) Run(watchdog time.Duration) {
	defer atomic.AddInt32(&nActive, -1)
	spins := 0
	for {
		var ids []int
		allDone := true
		curEnabled, curYielded := false, false
		for _, t := range s.threads {
			if t.done {
				continue
			}
			allDone = false
			if t.enabled == nil || t.enabled() {
				if t == s.cur {
					if t.yielded {
						curYielded = true
					} else {
						curEnabled = true
					}
				} else {
					ids = append(ids, t.ID)
				}
			}
		}
		if allDone {
			return
		}
		// canonical order: the running thread first (continuing costs nothing), then the others ascending; a
		// thread that just yielded (polling) goes last
		if curEnabled {
			ids = append([]int{s.cur.ID}, ids...)
		}
		if curYielded {
			if len(ids) == 0 {
				spins++
				if spins > 1000 {
					s.Stuck = fmt.Sprintf("livelock: thread %d (%s) polls forever and no other thread is enabled", s.cur.ID, s.cur.Name)
					s.abort()
					return
				}
			}
			ids = append(ids, s.cur.ID)
		}
		if !curYielded || len(ids) > 1 {
			spins = 0
		}
		if len(ids) == 0 {
			s.Deadlock = true
			s.abort()
			return
		}
		k := 0
		if len(ids) > 1 {
			k = s.Choose(ids, curEnabled)
		}
		next := s.threads[ids[k]]
		s.Trace = append(s.Trace, next.ID)
		s.Points++
		s.cur = next
		next.started = true
		next.wake <- struct{}{}
		select {
		case <-s.parked:
		case <-time.After(watchdog):
			s.Stuck = fmt.Sprintf("thread %d (%s) did not return to the scheduler within %v (blocked on an uninstrumented primitive?)", next.ID, next.Name, watchdog)
			s.aborted = true
			return
		}
	}
}

// abort releases every parked thread (they unwind with a private panic value).
func (s *Sched) abort() {
	s.aborted = true
	for _, t := range s.threads {
		if !t.done {
			t.wake <- struct{}{}
			<-s.parked
		}
	}
}

// Threads returns the managed threads (for reporting panics).
func (s *Sched) Threads() []*Thread { return s.threads }
