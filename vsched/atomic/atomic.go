// Package atomic is the scheduler-aware stand-in for sync/atomic in instrumented files: every operation of a
// managed thread is preceded by a scheduling point, then performed with the real primitive.
package atomic

import (
	real "sync/atomic"
	"unsafe"

	"github.com/lianxiangcloud/linkchain/libs/vsched"
)

type Value = real.Value

func pt() {
	if t := vsched.Current(); t != nil {
		t.Point(nil)
	}
}

func AddInt32(addr *int32, delta int32) int32     { pt(); return real.AddInt32(addr, delta) }
func AddInt64(addr *int64, delta int64) int64     { pt(); return real.AddInt64(addr, delta) }
func AddUint32(addr *uint32, delta uint32) uint32 { pt(); return real.AddUint32(addr, delta) }
func AddUint64(addr *uint64, delta uint64) uint64 { pt(); return real.AddUint64(addr, delta) }
func LoadInt32(addr *int32) int32                 { pt(); return real.LoadInt32(addr) }
func LoadInt64(addr *int64) int64                 { pt(); return real.LoadInt64(addr) }
func LoadUint32(addr *uint32) uint32              { pt(); return real.LoadUint32(addr) }
func LoadUint64(addr *uint64) uint64              { pt(); return real.LoadUint64(addr) }
func StoreInt32(addr *int32, v int32)             { pt(); real.StoreInt32(addr, v) }
func StoreInt64(addr *int64, v int64)             { pt(); real.StoreInt64(addr, v) }
func StoreUint32(addr *uint32, v uint32)          { pt(); real.StoreUint32(addr, v) }
func StoreUint64(addr *uint64, v uint64)          { pt(); real.StoreUint64(addr, v) }
func SwapInt32(addr *int32, v int32) int32        { pt(); return real.SwapInt32(addr, v) }
func SwapInt64(addr *int64, v int64) int64        { pt(); return real.SwapInt64(addr, v) }
func SwapUint32(addr *uint32, v uint32) uint32    { pt(); return real.SwapUint32(addr, v) }
func SwapUint64(addr *uint64, v uint64) uint64    { pt(); return real.SwapUint64(addr, v) }
func CompareAndSwapInt32(addr *int32, o, n int32) bool {
	pt()
	return real.CompareAndSwapInt32(addr, o, n)
}
func CompareAndSwapInt64(addr *int64, o, n int64) bool {
	pt()
	return real.CompareAndSwapInt64(addr, o, n)
}
func CompareAndSwapUint32(addr *uint32, o, n uint32) bool {
	pt()
	return real.CompareAndSwapUint32(addr, o, n)
}
func CompareAndSwapUint64(addr *uint64, o, n uint64) bool {
	pt()
	return real.CompareAndSwapUint64(addr, o, n)
}
func LoadPointer(addr *unsafe.Pointer) unsafe.Pointer { pt(); return real.LoadPointer(addr) }
func StorePointer(addr *unsafe.Pointer, v unsafe.Pointer) {
	pt()
	real.StorePointer(addr, v)
}
