// Package sync is the scheduler-aware stand-in for the standard sync package in instrumented files (same type
// and method names). Managed threads go through a scheduling point and a model of the primitive; every
// operation is also applied to a real primitive so that unmanaged goroutines keep working.
package sync

import (
	realsync "sync"

	"github.com/lianxiangcloud/linkchain/libs/vsched"
)

type (
	Map    = realsync.Map
	Pool   = realsync.Pool
	Locker = realsync.Locker
	Cond   = realsync.Cond
)

func NewCond(l Locker) *Cond { return realsync.NewCond(l) }

type Mutex struct {
	real realsync.Mutex
	held bool
}

func (m *Mutex) Lock() {
	if t := vsched.Current(); t != nil {
		t.Point(func() bool { return !m.held })
		m.held = true
	}
	m.real.Lock()
}

func (m *Mutex) Unlock() {
	if vsched.Current() != nil {
		m.held = false
	}
	m.real.Unlock()
}

type RWMutex struct {
	real    realsync.RWMutex
	writer  bool
	readers int
}

func (m *RWMutex) Lock() {
	if t := vsched.Current(); t != nil {
		t.Point(func() bool { return !m.writer && m.readers == 0 })
		m.writer = true
	}
	m.real.Lock()
}

func (m *RWMutex) Unlock() {
	if vsched.Current() != nil {
		m.writer = false
	}
	m.real.Unlock()
}

func (m *RWMutex) RLock() {
	if t := vsched.Current(); t != nil {
		t.Point(func() bool { return !m.writer })
		m.readers++
	}
	m.real.RLock()
}

func (m *RWMutex) RUnlock() {
	if vsched.Current() != nil {
		m.readers--
	}
	m.real.RUnlock()
}

type rlocker RWMutex

func (r *rlocker) Lock()   { (*RWMutex)(r).RLock() }
func (r *rlocker) Unlock() { (*RWMutex)(r).RUnlock() }

func (m *RWMutex) RLocker() Locker { return (*rlocker)(m) }

type WaitGroup struct {
	real realsync.WaitGroup
	mu   realsync.Mutex
	n    int
}

func (w *WaitGroup) Add(delta int) {
	w.mu.Lock()
	w.n += delta
	w.mu.Unlock()
	w.real.Add(delta)
}

func (w *WaitGroup) Done() {
	if t := vsched.Current(); t != nil {
		t.Point(nil)
	}
	w.Add(-1)
}

func (w *WaitGroup) Wait() {
	if t := vsched.Current(); t != nil {
		t.Point(func() bool { w.mu.Lock(); defer w.mu.Unlock(); return w.n <= 0 })
	}
	w.real.Wait()
}

type Once struct {
	real    realsync.Once
	running bool
	done    bool
}

func (o *Once) Do(f func()) {
	if t := vsched.Current(); t != nil {
		t.Point(func() bool { return !o.running })
		if o.done {
			return
		}
		o.running = true
		defer func() { o.running = false; o.done = true }()
	}
	o.real.Do(f)
}
