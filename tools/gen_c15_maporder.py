#!/usr/bin/env python3
"""gen_c15_maporder.py <repo> <gendir>          (generator protocol of tools/mkoverlay.py; active only for VERIF_CHECK_ID=c15)
   gen_c15_maporder.py --one <in.go> <out.go>   (stand-alone: same transformation of one file, used for detection demos)

Instrumented copy of the CURRENT mempool/mempool.go for check C15:

 1. Mempool.promoteExecutables(nil) collects the senders of mem.futureTxs with `for addr := range mem.futureTxs`: Go's
    randomised map iteration order decides which sender is promoted first when several compete for the last free
    slots of goodTxs (and the order of goodTxs otherwise). That is a nondeterministic choice of the environment, so the
    harness must control and enumerate it: one statement is appended after that loop,
        accounts = verifC15Order(mem, accounts)
    (defined in /verif/hooks/mempool/c15_hooks.go; identity unless the harness installs a chooser). Any order the chooser
    returns is an order the unmodified code can take. If the loop is not found (the file changed), this step is skipped
    and the harness reports the order as uncontrolled.
 2. The result goes through the cooperative-scheduler instrumenter, exactly as tools/gen_schedx.py does for the other
    files of the check (mempool/mempool.go is therefore NOT listed under "c15" in tools/schedx_files.json).
"""
import hashlib, json, os, re, subprocess, sys

here = os.path.dirname(os.path.abspath(__file__))
verif = os.path.dirname(here)
PATTERN = re.compile(r'(\n(\t+)for addr := range mem\.futureTxs \{\n\t+accounts = append\(accounts, addr\)\n\t+\}\n)')


def tool():
    t = os.path.join(verif, ".build", "bin", "instrument")
    env = dict(os.environ, GOFLAGS="-mod=mod", GOPROXY="off", GOSUMDB="off", GOTOOLCHAIN="local")
    os.makedirs(os.path.dirname(t), exist_ok=True)
    subprocess.check_call(["go", "build", "-o", t, "./tools/instrument"], cwd=os.path.join(verif, "harness"), env=env,
                          stdout=sys.stderr)
    return t


def transform(src, dst):
    txt = open(src).read()
    hits = PATTERN.findall(txt)
    if len(hits) == 1:
        txt = PATTERN.sub(lambda m: m.group(1) + m.group(2) + "accounts = verifC15Order(mem, accounts)\n", txt, count=1)
    else:
        sys.stderr.write("gen_c15_maporder: account-gathering loop of promoteExecutables not found (%d matches): map order stays uncontrolled\n" % len(hits))
    mid = dst + ".src.%d.go" % os.getpid()
    open(mid, "w").write(txt)
    tmp = dst + ".%d" % os.getpid()
    try:
        subprocess.check_call([tool(), mid, tmp], stdout=sys.stderr)
        os.replace(tmp, dst)
    finally:
        if os.path.exists(mid):
            os.remove(mid)


def main():
    if len(sys.argv) == 4 and sys.argv[1] == "--one":
        transform(sys.argv[2], sys.argv[3])
        return
    repo, gen = sys.argv[1], sys.argv[2]
    if os.environ.get("VERIF_CHECK_ID", "") != "c15":
        print("{}")
        return
    key = os.path.join(repo, "mempool/mempool.go")
    src = key
    if os.environ.get("VERIF_SRC_OVERRIDES"):  # a mutant supplied through VERIF_EXTRA_OVERLAY is what gets instrumented
        src = json.load(open(os.environ["VERIF_SRC_OVERRIDES"])).get(key, key)
    me = hashlib.sha1(open(__file__, "rb").read()).hexdigest()[:6]
    h = hashlib.sha1(open(src, "rb").read()).hexdigest()[:12]
    d = os.path.join(gen, "c15")
    os.makedirs(d, exist_ok=True)
    dst = os.path.join(d, "mempool__mempool.%s.%s.go" % (h, me))
    if not os.path.exists(dst):
        transform(src, dst)
    print(json.dumps({key: dst}))


if __name__ == "__main__":
    main()
