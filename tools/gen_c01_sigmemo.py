#!/usr/bin/env python3
"""gen_c01_sigmemo.py <repo> <gendir>   (generator protocol of tools/mkoverlay.py; active only for VERIF_CHECK_ID=c01)

Copy of the CURRENT libs/crypto/pub_key.go in which PubKeyEd25519.VerifyBytes is renamed to verifyBytesUncached and a
memoising wrapper of the same name and signature is appended: the result of the real function is remembered per
(public key, message, signature). Signature verification is a pure function of those three values, so the node under
test behaves identically; the explicit-state searches of C01 replay the same few dozen signed messages hundreds of
thousands of times and spent about half of their CPU time re-verifying them. The first call for every triple runs the
real (possibly mutated: VERIF_SRC_OVERRIDES) code. If the method is not found the file is left alone.
"""
import hashlib, json, os, re, sys

SIG = "func (pubKey PubKeyEd25519) VerifyBytes(msg []byte, sig_ Signature) bool {"
WRAP = '''

// ---- appended by /verif/tools/gen_c01_sigmemo.py (build of check C01 only) ----

var verifSigMemo verifSyncMap

type verifSyncMap struct {
	mu sync.RWMutex
	m  map[string]bool
}

func (pubKey PubKeyEd25519) VerifyBytes(msg []byte, sig_ Signature) bool {
	sig, ok := sig_.(SignatureEd25519)
	if !ok {
		return pubKey.verifyBytesUncached(msg, sig_)
	}
	k := string(pubKey[:]) + string(sig[:]) + string(msg)
	verifSigMemo.mu.RLock()
	v, hit := verifSigMemo.m[k]
	verifSigMemo.mu.RUnlock()
	if hit {
		return v
	}
	v = pubKey.verifyBytesUncached(msg, sig_)
	verifSigMemo.mu.Lock()
	if verifSigMemo.m == nil {
		verifSigMemo.m = map[string]bool{}
	}
	verifSigMemo.m[k] = v
	verifSigMemo.mu.Unlock()
	return v
}
'''


def main():
    repo, gen = sys.argv[1], sys.argv[2]
    if os.environ.get("VERIF_CHECK_ID", "").lower() != "c01":
        print("{}")
        return
    key = os.path.join(repo, "libs/crypto/pub_key.go")
    src = key
    if os.environ.get("VERIF_SRC_OVERRIDES"):
        src = json.load(open(os.environ["VERIF_SRC_OVERRIDES"])).get(key, key)
    txt = open(src).read()
    if txt.count(SIG) != 1:
        sys.stderr.write("gen_c01_sigmemo: VerifyBytes of PubKeyEd25519 not found; no memo\n")
        print("{}")
        return
    txt = txt.replace(SIG, SIG.replace("VerifyBytes(", "verifyBytesUncached("))
    if '"sync"' not in txt:
        txt = re.sub(r'import \(\n', 'import (\n\t"sync"\n', txt, count=1)
    txt += WRAP
    me = hashlib.sha1(open(__file__, "rb").read()).hexdigest()[:6]
    h = hashlib.sha1(open(src, "rb").read()).hexdigest()[:12]
    d = os.path.join(gen, "c01")
    os.makedirs(d, exist_ok=True)
    dst = os.path.join(d, "libs__crypto__pub_key.%s.%s.go" % (h, me))
    if not os.path.exists(dst):
        tmp = dst + ".%d" % os.getpid()
        open(tmp, "w").write(txt)
        os.replace(tmp, dst)
    print(json.dumps({key: dst}))


if __name__ == "__main__":
    main()
