#!/usr/bin/env python3
"""gen_c05_ser.py <repo> <gendir>: for the C05 build only (env VERIF_CHECK_ID=c05), a copy of the CURRENT
libs/ser/encode.go in which makeMapWriter obtains the map keys through the seam verifC05MapKeys(val) (defined in
hooks/libs/ser/c05_hooks.go) instead of val.MapKeys(), so that the harness can enumerate every iteration order.
Nothing else of the file is touched. Prints {repo file: generated copy} ({} for every other check, or when the
function no longer contains the call: the harness then falls back to insertion orders and says so)."""
import hashlib, json, os, re, sys
repo, gen = sys.argv[1], sys.argv[2]
out = {}
if os.environ.get("VERIF_CHECK_ID", "") == "c05":
    src = os.path.join(repo, "libs/ser/encode.go")
    overrides = {}
    if os.environ.get("VERIF_SRC_OVERRIDES"):
        overrides = json.load(open(os.environ["VERIF_SRC_OVERRIDES"]))
    try:
        txt = open(overrides.get(src, src)).read()  # a mutant supplied through VERIF_EXTRA_OVERLAY is what gets the seam
    except OSError:
        txt = ""
    m = re.search(r'^func makeMapWriter\(.*?\n}\n', txt, flags=re.S | re.M)
    if m and "val.MapKeys()" in m.group(0):
        new = txt[:m.start()] + m.group(0).replace("val.MapKeys()", "verifC05MapKeys(val)") + txt[m.end():]
        d = os.path.join(gen, "c05")
        os.makedirs(d, exist_ok=True)
        dst = os.path.join(d, "ser__encode.%s.go" % hashlib.sha1(new.encode()).hexdigest()[:12])
        if not os.path.exists(dst):
            tmp = dst + ".%d" % os.getpid()
            open(tmp, "w").write(new)
            os.replace(tmp, dst)
        out[src] = dst
print(json.dumps(out))
