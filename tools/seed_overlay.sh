#!/bin/bash
# seed_overlay.sh <seed-name>  -> builds /tmp/seedov-<name>/ov.json mapping every file touched by
# /verif/seeded/<name>/patch.diff to a patched copy (equivalent to `git -C /repo apply`, but /repo stays clean, which
# matters while other checks are running). Use: VERIF_EXTRA_OVERLAY=/tmp/seedov-<name>/ov.json ./check <ID> ...
set -eu
N=$1; D=/tmp/seedov-$N; rm -rf $D; mkdir -p $D/tree
P=/verif/seeded/$N/patch.diff
FILES=$(grep '^+++ b/' $P | sed 's#^+++ b/##')
for f in $FILES; do mkdir -p $D/tree/$(dirname $f); cp /repo/$f $D/tree/$f; done
( cd $D/tree && patch -s -p1 < $P )
python3 - "$D" $FILES <<'PY'
import json,sys
D=sys.argv[1]
json.dump({"Replace":{"/repo/"+f: D+"/tree/"+f for f in sys.argv[2:]}}, open(D+"/ov.json","w"), indent=1)
PY
echo $D/ov.json
