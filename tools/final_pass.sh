#!/bin/bash
# final_pass.sh: on the CLEAN tree run every claimed quick check once (sequentially), regenerate all evidence files,
# validate MANIFEST.json and every evidence file against the schemas. Exit 0 iff everything is in order.
cd "$(dirname "$0")/.." || exit 2
if [ -n "$(git -C /repo status --porcelain)" ]; then echo "/repo working tree is not clean"; git -C /repo status --short | head; exit 2; fi
python3 tools/mkmanifest.py || exit 2
rm -f replays/*.json
bad=0
for id in $(python3 -c "import json;print(' '.join(c['property_id'] for c in json.load(open('MANIFEST.json'))['checks']))"); do
  rm -f evidence/$id.json
  t0=$(date +%s)
  ./check $id --tier quick > .build/final-$id.log 2>&1; rc=$?
  t1=$(date +%s)
  nv=$(grep -c '^VIOLATION' .build/final-$id.log)
  echo "$id rc=$rc violations=$nv $((t1-t0))s :: $(tail -1 .build/final-$id.log | cut -c1-120)"
  if [ $rc -ne 0 ] || [ $nv -ne 0 ] || [ ! -f evidence/$id.json ]; then bad=1; fi
done
python3-vt - <<'PY' || bad=1
import json, jsonschema, glob, sys
m = json.load(open('MANIFEST.json'))
jsonschema.validate(m, json.load(open('/root/.vp/MANIFEST.schema.json')))
sch = json.load(open('/root/.vp/EVIDENCE.schema.json'))
ok = True
for c in m['checks']:
    e = json.load(open(c['evidence_file']))
    jsonschema.validate(e, sch)
    if e['level'] != c['level_claimed']['category']:
        print('LEVEL MISMATCH', c['property_id'], e['level'], c['level_claimed']['category']); ok = False
    if not e['coverage'].get('exhaustive'):
        print('NOT EXHAUSTIVE', c['property_id'])
print('schemas ok' if ok else 'problems')
sys.exit(0 if ok else 1)
PY
echo "final pass: $([ $bad -eq 0 ] && echo OK || echo PROBLEMS)"
exit $bad
