#!/usr/bin/env python3
"""Regenerate the seeded-defect table of DESIGN.md (between the seeds-table markers) from seeded/*/meta.json."""
import glob, json, os, re
V = os.path.dirname(os.path.dirname(os.path.abspath(__file__)))
rows = []
stats = {"caught": 0, "missed": 0, "harness error": 0}
notnow = []
for p in sorted(glob.glob(os.path.join(V, "seeded", "*", "meta.json"))):
    sid = os.path.basename(os.path.dirname(p))
    m = json.load(open(p))
    det = m.get("detection", "")
    first = "caught"
    if re.search(r"\bMISSED\b", det):
        first = "missed"
    if det.startswith("first run: HARNESS-ERROR") or det.startswith("first run: the check did not terminate") or det.startswith("HARNESS-ERROR at first run"):
        first = "harness error"
    if det.startswith("NOT caught"):
        first = "missed"
    if "ends as a HARNESS-ERROR on this seed" in det:
        first = "harness error"
    stats[first] += 1
    now = "caught"
    if "in progress" in det or "see detection/" in det and "VIOLATION" not in det or "see DESIGN seed table for the final status" in det:
        now = "being strengthened"
    if det.startswith("NOT caught"):
        now = "NOT caught (outside the bound)"
    if "ends as a HARNESS-ERROR on this seed" in det:
        now = "caught by " + "/".join(m.get("also_checked_by", []))
    if now != "caught":
        notnow.append("%s: %s" % (sid, now))
    summ = m["summary"].replace("|", "\\|").replace("\n", " ")
    if len(summ) > 170:
        summ = summ[:167].rsplit(" ", 1)[0] + " ..."
    keys = re.findall(r"(?:key|keys) ([A-Za-z0-9_:<>.\-/\[\]=+*(){}' ]+?)(?: \(|,| and |;|$)", det)
    key = keys[0].strip() if keys else ""
    rows.append("| %s | %s | `%s` | %s | %s | %s | %s |" % (sid, m["property"], ", ".join(m.get("files_changed", [])), summ, first, now, ("`" + key + "`") if key else ""))
table = ["| seed | property | file(s) | change | first run | now | reporting key (example) |", "|---|---|---|---|---|---|---|"] + rows
table.append("")
table.append("%d seeds: %d caught at the first run, %d missed at first, %d ended as a harness error at first." % (len(rows), stats["caught"], stats["missed"], stats["harness error"]))
p = os.path.join(V, "DESIGN.md")
s = open(p).read()
a, b = s.index("<!-- seeds-table-begin -->"), s.index("<!-- seeds-table-end -->")
s = s[:a] + "<!-- seeds-table-begin -->\n" + "\n".join(table) + "\n" + s[b:]
open(p, "w").write(s)
print("\n".join(table[-1:]))
print("not (yet) caught:", notnow)
