#!/bin/bash
# usage: thorough_pass.sh [-j N] [IDs...]  -> runs the thorough tier of the listed checks (default all) on /repo's working tree,
# N at a time, logs in .build/thorough/<ID>.log, summary on stdout. Evidence files are overwritten by the runs.
cd /verif
J=3; if [ "$1" = "-j" ]; then J=$2; shift 2; fi
IDS="$*"; [ -z "$IDS" ] && IDS=$(python3 -c "import json;print(' '.join(c['property_id'] for c in json.load(open('MANIFEST.json'))['checks']))")
mkdir -p .build/thorough
printf '%s\n' $IDS | xargs -P $J -I{} sh -c './check {} --tier thorough > .build/thorough/{}.log 2>&1; echo "{} exit=$? $(tail -1 .build/thorough/{}.log | cut -c1-160)"'
