#!/bin/bash
# run_seeds.sh [seed ...]   regression of the machinery: every seeded defect (seeded/<id>/patch.diff) is applied through an
# overlay (never to /repo) and its property's quick check must exit 1 with a VIOLATION line. Prints one line per seed and a
# summary; exit 0 iff every seed is reported. Extra property checks to run for a seed can be listed in
# seeded/<id>/meta.json "also_checked_by". Results: /verif/.build/seed-regression.txt
cd "$(dirname "$0")/.." || exit 2
SEEDS="$*"; [ -z "$SEEDS" ] && SEEDS=$(ls seeded)
OUT=${SEEDREG_OUT:-.build/seed-regression.txt}; mkdir -p .build; : > $OUT
fail=0
for s in $SEEDS; do
  prop=$(python3 -c "import json;print(json.load(open('seeded/$s/meta.json'))['property'])")
  ov=$(bash tools/seed_overlay.sh $s 2>/dev/null | tail -1)
  if [ ! -f "$ov" ]; then echo "$s $prop OVERLAY-FAILED (patch no longer applies to the current tree)" | tee -a $OUT; fail=1; continue; fi
  log=.build/seed-$s.log
  VERIF_EXTRA_OVERLAY=$ov ./check $prop --tier quick > $log 2>&1; rc=$?
  nv=$(grep -c '^VIOLATION' $log)
  if [ $rc -eq 1 ] && [ $nv -gt 0 ]; then r=CAUGHT; else
    r="NOT-REPORTED(rc=$rc)"
    for other in $(python3 -c "import json;print(' '.join(json.load(open('seeded/$s/meta.json')).get('also_checked_by',[])))"); do
      VERIF_EXTRA_OVERLAY=$ov ./check $other --tier quick > $log.$other 2>&1; rc2=$?
      nv2=$(grep -c '^VIOLATION' $log.$other)
      if [ $rc2 -eq 1 ] && [ $nv2 -gt 0 ]; then r="CAUGHT-BY-$other($prop:rc=$rc)"; nv=$nv2; log=$log.$other; fi
      rm -f replays/$other-*.json
    done
    case "$r" in NOT-REPORTED*) fail=1;; esac
  fi
  echo "$s $prop $r violations=$nv $(grep -m1 '^VIOLATION' $log | sed 's/.*key=//' | cut -c1-100)" | tee -a $OUT
  rm -rf /tmp/seedov-$s
  rm -f replays/$prop-*.json
done
echo "summary: $(grep -c "CAUGHT" $OUT) caught of $(wc -l < $OUT)" | tee -a $OUT
exit $fail
