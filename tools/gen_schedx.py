#!/usr/bin/env python3
"""gen_schedx.py <repo> <gendir>: instrumented copies (cooperative scheduler shims) of the CURRENT repo files listed
for the check being built (env VERIF_CHECK_ID) in tools/schedx_files.json. Prints {repo file: generated copy}."""
import json, os, subprocess, sys, hashlib
repo, gen = sys.argv[1], sys.argv[2]
here = os.path.dirname(os.path.abspath(__file__))
cfg = json.load(open(os.path.join(here, "schedx_files.json")))
cid = os.environ.get("VERIF_CHECK_ID", "")
out = {}
files = cfg.get(cid, []) if not cid.startswith("_") else []
if files:
    harness = os.path.join(os.path.dirname(here), "harness")
    tool = os.path.join(os.path.dirname(here), ".build", "bin", "instrument")
    env = dict(os.environ, GOFLAGS="-mod=mod", GOPROXY="off", GOSUMDB="off", GOTOOLCHAIN="local")
    subprocess.check_call(["go", "build", "-o", tool, "./tools/instrument"], cwd=harness, env=env)
    d = os.path.join(gen, "schedx")
    os.makedirs(d, exist_ok=True)
    overrides = {}
    if os.environ.get("VERIF_SRC_OVERRIDES"):
        overrides = json.load(open(os.environ["VERIF_SRC_OVERRIDES"]))
    for rel in files:
        key = os.path.join(repo, rel)
        src = overrides.get(key, key)   # a mutant supplied through VERIF_EXTRA_OVERLAY is what gets instrumented
        h = hashlib.sha1(open(src, "rb").read()).hexdigest()[:12]
        dst = os.path.join(d, rel.replace("/", "__")[:-3] + "." + h + ".go")
        if not os.path.exists(dst):
            tmp = dst + ".%d" % os.getpid()
            subprocess.check_call([tool, src, tmp])
            os.replace(tmp, dst)
        out[key] = dst
print(json.dumps(out))
