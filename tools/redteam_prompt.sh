#!/bin/bash
# usage: redteam_prompt.sh <PROPERTY-ID> <name>  -> prompt for an independent "seeded defect" author
ID=$1; N=$2; D="/tmp/seed-$N"
python3 - "$ID" <<'PY' > /tmp/seed-$2/property.txt
import json,sys
for l in open('/verif/properties.jsonl'):
    p=json.loads(l)
    if p['id']==sys.argv[1]:
        print("TITLE:", p['title']); print("STATEMENT:", p['statement']); print("QUANTIFIED OVER:", p['quantifier']['text'])
        print("CODE ANCHORS (files):", ", ".join(p['anchors']['files']))
        print("MECHANISMS MEANT TO MAKE IT HOLD:"); [print("  -", m.get('name'), "@", m.get('where')) for m in p['anchors']['mechanism']]
PY
cat <<P
You are a software engineer asked to write ONE realistic, subtle defect into a Go code base, to test whether a verification team's tooling notices it. You work ONLY inside your own scratch git worktree of the repository: $D/repo (lianxiangcloud/linkchain, a Tendermint-style blockchain node). Do NOT read or touch /verif or /repo (the team's tooling lives there; your change must be independent of it) — the only things outside your worktree you may use are $D/ov.json and the files it points to.

THE PROPERTY YOUR CHANGE MUST BREAK (read $D/property.txt; it is reproduced here):
$(cat /tmp/seed-$N/property.txt)

TASK
1. Read the anchored code in $D/repo and find a place where a small, plausible-looking source change (the kind a maintainer could make by mistake in a refactoring, an "optimisation", an off-by-one, a swapped order of two statements, a cache keyed too coarsely, a check moved after the action it guards, two cooperating sites that each look fine alone ...) makes the property FALSE. Requirements: (a) the repository still compiles (\`go build ./...\` in the worktree); (b) the existing tests of the packages you touch still pass — the only test packages that run in this sandbox are leaf packages (libs/*, accounts/abi, config, console/jsre, wallet/mnemonic); run the tests of any such package you modify: \`cd $D/repo && GOFLAGS=-mod=mod GOPROXY=off GOSUMDB=off go test -vet=off -count=1 ./<pkg>/\`; core packages (types, consensus, state, app, mempool, utxo, blockchain, vm, ...) depend on a cgo library that is absent, so their in-tree tests only link with the overlay: \`go test -overlay $D/ov.json -vet=off -count=1 ./<pkg>/\` (the overlay swaps in a pure-Go stand-in for libs/cryptonote/xcrypto; some in-tree tests of app/mempool/types fail already WITHOUT your change — compare before/after and make sure you add no new failure); (c) the defect must need something SPECIFIC to manifest — a particular interleaving or message order, a crash or fault at a particular point, a multi-step sequence of operations, an unusual input or boundary value, a particular configuration — NOT something ordinary use or a trivial smoke test would expose at once; (d) no new files in the repo except your demonstration test; do not touch test files that exist; keep the diff small (typically 1-15 changed lines in 1-2 files).
2. Write a DEMONSTRATION: a Go test file (new file, e.g. <pkg>/zz_seed_demo_test.go in the worktree, may use unexported identifiers of that package) or a small main program that FAILS with your change and PASSES without it, and that shows the property violation concretely (not just "output differs"). Run it both ways (use \`git stash\` / \`git diff > patch; git checkout -- <files>\` inside YOUR worktree only) with \`go test -overlay $D/ov.json -vet=off -count=1 -run <YourTest> ./<pkg>/\` and paste both outputs in your report.
3. Leave in $D/: \`patch.diff\` (output of \`git -C $D/repo diff -- . ':(exclude)*zz_seed_demo*'\` — the defect only, without the demonstration), the demonstration file copied as \`$D/demo_test.go\` (plus a line saying which package directory it belongs in), and \`$D/meta.json\` with keys: property ("$ID"), summary (one sentence), files_changed, what_it_needs_to_manifest (the specific trigger), why_existing_tests_pass, demo_package_dir, demo_run_cmd, demo_fails_with_patch (true/false as you observed), demo_passes_without_patch (true/false as you observed).
4. Final report: the diff, why it breaks the property, the trigger, both demo outputs.
Use GOFLAGS=-mod=mod GOPROXY=off GOSUMDB=off GOTOOLCHAIN=local for every go command; there is no network. Do not run more than 4 CPU-heavy processes at once. Leave the worktree with your change APPLIED (the lead will collect patch.diff and remove the worktree).
P
