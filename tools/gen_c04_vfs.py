#!/usr/bin/env python3
"""File-system redirect for the crash-enumeration check C04 (engine E3 "crashx").

    gen_c04_vfs.py /repo <gendir>

Regenerates, from the CURRENT repo files, instrumented copies in which the file-system calls made INSIDE the
listed functions (and nothing else) go through the shim dispatch of package libs/common (hook file
/verif/hooks/libs/common/vfs_hook.go: VerifOpenFile, VerifRename, VerifRemove, VerifReadFile, ...):

    libs/common/os.go          func WriteFileAtomic (required)   os.OpenFile / os.Rename / os.Remove / ...
                               and, if present and redirectable, the other small file helpers of that file
                               (WriteFile, MustWriteFile, ReadFile, MustReadFile, FileExists, EnsureDir), so that a
                               signer that is changed to use one of them still runs on the shim
    types/priv_validator.go    func LoadFilePV (required)        ioutil.ReadFile, cmn.Exit -> cmn.VerifExit
                               and every other function of that file (today none of them touches os / ioutil)

The rewrite is textual and identifier-level: `os.OpenFile` -> `VerifOpenFile` (`cmn.VerifOpenFile` outside
package common), `*os.File` -> `VerifFile`; flags, FileMode, error predicates and every byte outside the listed
function bodies are left alone. The dispatch passes straight through to package os unless the path lies under
"/.verif-vfs/<mount>/", so a binary that mounts nothing behaves like the unmodified code.

Because the dispatch functions exist only under the `verif` build tag, each repo file is projected twice:
  <file>.go                      -> instrumented copy, `//go:build verif`
  zz_verif_c04_orig_<file>.go    -> byte-identical original, `//go:build !verif`
(both start with a `//line <repo file>:1` directive, so positions in compiler errors, panics and stack traces
are those of the repo file). A third generated file, zz_verif_c04_redirects_gen.go, exports the list of
redirected call sites to the harness (it records them in the evidence).

Prints the JSON object {repo path: replacement path} that tools/mkoverlay.py merges into the overlay.

Second mode, used by /verif/harness/cmd/c04/prebuild.sh:

    gen_c04_vfs.py --fix-overlay <overlay.json> /repo <gendir>

tools/mkoverlay.py applies VERIF_EXTRA_OVERLAY (the mutant files of a detection demo) AFTER the generators, so
a mutant of libs/common/os.go or types/priv_validator.go would replace the instrumented copy by the raw mutant
and the signer's I/O would go to the real disk. This mode looks at what the finished overlay maps the listed
repo files to; where that is not this generator's own output it instruments THAT file (same rules, same loud
failures; output named by content hash so that concurrent builds of other checks never see it) and rewrites
the overlay entry (and the `!verif` twin) in place.

FAILS LOUDLY (exit 3, message on stderr, nothing printed on stdout) if
  * a listed file or function is missing, or the function body cannot be delimited;
  * a listed function uses an `os.` / `ioutil.` identifier that is neither redirectable nor known to be free of
    file-system access (the call would silently escape the shim);
  * a listed function no longer contains a call of the expected category (WriteFileAtomic: something that
    opens a file for writing; LoadFilePV: something that reads a file) - i.e. the I/O moved elsewhere and this
    generator has to be updated;
  * the file carries its own build constraint, or imports os / ioutil / libs/common in an unexpected way.
A body that still does its I/O with supported calls but with DIFFERENT ones than when the harness was written
(e.g. a rename replaced by an in-place write) is still redirected - that is exactly what a check must be able
to observe - and the difference is reported through VerifC04RedirectsBaseline = false.
"""
import json
import os
import re
import sys

COMMON_IMPORT = "github.com/lianxiangcloud/linkchain/libs/common"

REWRITE = {
    ("os", "OpenFile"): "VerifOpenFile", ("os", "Open"): "VerifOpen", ("os", "Create"): "VerifCreate",
    ("os", "Rename"): "VerifRename", ("os", "Remove"): "VerifRemove",
    ("os", "Stat"): "VerifStat", ("os", "Lstat"): "VerifStat", ("os", "MkdirAll"): "VerifMkdirAll",
    ("os", "Truncate"): "VerifTruncate", ("os", "Chmod"): "VerifChmod",
    ("os", "ReadFile"): "VerifReadFile", ("os", "WriteFile"): "VerifWriteFile", ("os", "CreateTemp"): "VerifTempFile",
    ("ioutil", "ReadFile"): "VerifReadFile", ("ioutil", "WriteFile"): "VerifWriteFile",
    ("ioutil", "TempFile"): "VerifTempFile",
    ("os", "File"): "VerifFile",  # only as `*os.File`
}
PURE = {
    "os": re.compile(r"^(O_[A-Z]+|FileMode|FileInfo|Mode[A-Za-z]*|Is(NotExist|Exist|Permission|Timeout)|"
                     r"Err[A-Za-z]+|PathError|LinkError|SyscallError|PathSeparator|PathListSeparator|"
                     r"SEEK_(SET|CUR|END)|Getpid|Getenv|DevNull)$"),
    "ioutil": re.compile(r"^(ReadAll|Discard|NopCloser)$"),
}
WRITE_OPENERS = {"VerifOpenFile", "VerifCreate", "VerifWriteFile", "VerifTempFile"}
READERS = {"VerifReadFile", "VerifOpen", "VerifOpenFile"}

# funcs: required functions with the category of call they must still contain; optional: instrumented if they
# exist and contain nothing the shim cannot redirect (otherwise left alone, with a note on stderr);
# whole_file: every other code line of the file is rewritten too (label "(elsewhere)").
TARGETS = [
    {"src": "libs/common/os.go", "tag": "os", "funcs": {"WriteFileAtomic": WRITE_OPENERS},
     "optional": ["EnsureDir", "FileExists", "ReadFile", "MustReadFile", "WriteFile", "MustWriteFile"],
     "baseline": ["EnsureDir:os.MkdirAll->VerifMkdirAll", "EnsureDir:os.Stat->VerifStat", "FileExists:os.Stat->VerifStat",
                  "MustReadFile:Exit->VerifExit", "MustReadFile:ioutil.ReadFile->VerifReadFile",
                  "MustWriteFile:Exit->VerifExit", "ReadFile:ioutil.ReadFile->VerifReadFile",
                  "WriteFile:ioutil.WriteFile->VerifWriteFile",
                  "WriteFileAtomic:os.OpenFile->VerifOpenFile", "WriteFileAtomic:os.Remove->VerifRemove",
                  "WriteFileAtomic:os.Rename->VerifRename"]},
    {"src": "types/priv_validator.go", "tag": "priv_validator", "funcs": {"LoadFilePV": READERS}, "whole_file": True,
     "baseline": ["LoadFilePV:cmn.Exit->cmn.VerifExit", "LoadFilePV:cmn.Exit->cmn.VerifExit",
                  "LoadFilePV:ioutil.ReadFile->cmn.VerifReadFile"]},
]


class GenError(Exception):
    pass


def segments(src):
    """Split Go source into (kind, start, end) with kind in code|comment|string; covers the whole text."""
    out, i, n, start = [], 0, len(src), 0

    def flush(upto):
        if upto > start:
            out.append(("code", start, upto))

    while i < n:
        c = src[i]
        if c == "/" and i + 1 < n and src[i + 1] == "/":
            flush(i)
            j = src.find("\n", i)
            j = n if j < 0 else j
            out.append(("comment", i, j))
            i = start = j
        elif c == "/" and i + 1 < n and src[i + 1] == "*":
            flush(i)
            j = src.find("*/", i + 2)
            if j < 0:
                raise GenError("unterminated block comment")
            out.append(("comment", i, j + 2))
            i = start = j + 2
        elif c == "`":
            flush(i)
            j = src.find("`", i + 1)
            if j < 0:
                raise GenError("unterminated raw string")
            out.append(("string", i, j + 1))
            i = start = j + 1
        elif c == '"' or c == "'":
            flush(i)
            j = i + 1
            while j < n and src[j] != c:
                if src[j] == "\\":
                    j += 1
                if src[j] == "\n":
                    raise GenError("unterminated string/rune literal")
                j += 1
            if j >= n:
                raise GenError("unterminated string/rune literal")
            out.append(("string", i, j + 1))
            i = start = j + 1
        else:
            i += 1
    flush(n)
    return out


def func_body(src, segs, name):
    """Return (start, end) offsets of the body braces of top-level `func name(`."""
    code = [(s, e) for k, s, e in segs if k == "code"]
    pat = re.compile(r"(?m)^func\s+" + re.escape(name) + r"\s*\(")
    hits = []
    for s, e in code:
        for m in pat.finditer(src, s, e):
            hits.append(m.start())
    if len(hits) != 1:
        raise GenError("expected exactly one top-level `func %s(`, found %d" % (name, len(hits)))
    in_code = bytearray(len(src))
    for s, e in code:
        in_code[s:e] = b"\x01" * (e - s)
    i, paren, body = hits[0], 0, -1
    word = re.compile(r"(interface|struct)\s*$")
    while i < len(src):
        if in_code[i]:
            c = src[i]
            if c == "(":
                paren += 1
            elif c == ")":
                paren -= 1
            elif c == "{" and paren == 0:
                if word.search(src, max(0, i - 16), i):
                    depth = 0  # a type literal in the signature: skip it
                    while i < len(src):
                        if in_code[i] and src[i] == "{":
                            depth += 1
                        elif in_code[i] and src[i] == "}":
                            depth -= 1
                            if depth == 0:
                                break
                        i += 1
                else:
                    body = i
                    break
        i += 1
    if body < 0:
        raise GenError("no body found for func %s" % name)
    depth, i = 0, body
    while i < len(src):
        if in_code[i]:
            if src[i] == "{":
                depth += 1
            elif src[i] == "}":
                depth -= 1
                if depth == 0:
                    return body, i + 1
        i += 1
    raise GenError("unbalanced braces in func %s" % name)


def import_names(src, segs):
    """Map import path -> local name, from the import declarations."""
    head = src
    names = {}
    for m in re.finditer(r'(?m)^\s*(?:import\s+)?(?:([A-Za-z_.][\w]*)\s+)?"([^"\n]+)"\s*$', head):
        alias, path = m.group(1), m.group(2)
        # only lines inside an import declaration: cheap check - they precede the first func/type/var/const
        names.setdefault(path, alias or path.rsplit("/", 1)[-1])
    return names


def instrument(repo, t, source=None):
    path = os.path.join(repo, t["src"])
    if not os.path.isfile(source or path):
        raise GenError("%s does not exist" % (source or path))
    src = open(source or path, encoding="utf-8").read()
    m = re.search(r"(?m)^package\s+(\w+)", src)
    if not m:
        raise GenError("%s: no package clause" % path)
    pkg = m.group(1)
    if re.search(r"(?m)^//\s*(go:build|\+build)\b", src[:m.start()]):
        raise GenError("%s carries its own build constraint; the generator cannot add a tag guard" % path)
    decl_end = re.search(r"(?m)^(func|type|var|const)\b", src)
    imports = import_names(src[:decl_end.start()] if decl_end else src, None)
    if imports.get("os", "os") != "os" or imports.get("io/ioutil", "ioutil") != "ioutil":
        raise GenError("%s imports os / io/ioutil under another name" % path)
    if pkg == "common":
        q = ""
    else:
        if COMMON_IMPORT not in imports:
            raise GenError("%s does not import %s" % (path, COMMON_IMPORT))
        q = imports[COMMON_IMPORT] + "."
    segs = segments(src)
    spans = []  # (label, start, end, required category or None, optional?)
    for fn, need in t["funcs"].items():
        spans.append((fn,) + func_body(src, segs, fn) + (need, False))
    for fn in t.get("optional", []):
        try:
            spans.append((fn,) + func_body(src, segs, fn) + (None, True))
        except GenError:
            pass  # an optional helper that does not exist (any more) is simply not instrumented
    spans.sort(key=lambda x: x[1])
    if t.get("whole_file"):
        rest, pos = [], 0
        for sp in spans:
            rest.append(("(elsewhere)", pos, sp[1], None, False))
            pos = sp[2]
        rest.append(("(elsewhere)", pos, len(src), None, False))
        spans = sorted(spans + rest, key=lambda x: x[1])
    redirects, edits, used_pkgs = [], [], set()
    exit_pat = r"(?<![\w.])Exit(?=\s*\()" if pkg == "common" else r"(?<![\w.])" + re.escape(q) + r"Exit(?=\s*\()"
    for fn, bs, be, need, optional in spans:
        got, f_edits, f_red, f_pkgs = set(), [], [], set()
        try:
            for kind, s, e in segs:
                if kind != "code" or e <= bs or s >= be:
                    continue
                s, e = max(s, bs), min(e, be)
                for mm in re.finditer(r"(\*\s*)?(?<![\w.])(os|ioutil)\s*\.\s*([A-Za-z_]\w*)", src[s:e]):
                    star, p, ident = mm.group(1), mm.group(2), mm.group(3)
                    a, b = s + mm.start(), s + mm.end()
                    if (p, ident) == ("os", "File"):
                        if not star:
                            raise GenError("%s: func %s uses os.File other than as *os.File" % (path, fn))
                        f_edits.append((a, b, q + "VerifFile"))
                        f_red.append("%s:*os.File->%sVerifFile" % (fn, q))
                        f_pkgs.add(p)
                        continue
                    if star:
                        a = s + mm.start(2)  # a dereference/multiplication in front of a call: keep the star
                    if (p, ident) in REWRITE:
                        new = REWRITE[(p, ident)]
                        f_edits.append((a, b, q + new))
                        f_red.append("%s:%s.%s->%s%s" % (fn, p, ident, q, new))
                        got.add(new)
                        f_pkgs.add(p)
                    elif PURE[p].match(ident):
                        continue
                    else:
                        raise GenError("%s: func %s uses %s.%s, which the vfs shim cannot redirect and which is "
                                       "not known to be free of file-system access; extend /verif/hooks/libs/"
                                       "common/vfs_hook.go and this generator" % (path, fn, p, ident))
                for mm in re.finditer(exit_pat, src[s:e]):
                    f_edits.append((s + mm.start(), s + mm.end(), q + "VerifExit"))
                    f_red.append("%s:%sExit->%sVerifExit" % (fn, q, q))
        except GenError as err:
            if not optional:
                raise
            sys.stderr.write("gen_c04_vfs.py: note: optional helper left un-instrumented: %s\n" % err)
            continue
        if need is not None and not (got & need):
            raise GenError("%s: func %s no longer contains a call of the expected kind (one of %s after redirect; "
                           "found %s). The file I/O of this function has moved: update tools/gen_c04_vfs.py"
                           % (path, fn, sorted(need), sorted(got) or "none"))
        edits += f_edits
        redirects += f_red
        used_pkgs |= f_pkgs
    out = src
    for a, b, new in sorted(edits, reverse=True):
        out = out[:a] + new + out[b:]
    trailer = ""
    for p in sorted(used_pkgs):
        keep = {"os": "os.O_RDONLY", "ioutil": "ioutil.Discard"}[p]
        trailer += "var _ = %s // verif: keeps the import used after the redirect\n" % keep
    if trailer:
        if not out.endswith("\n"):
            out += "\n"
        out += "\n" + trailer
    line = "//line %s:1\n" % (source or path)
    inst = "//go:build verif\n\n" + line + out
    orig = "//go:build !verif\n\n" + line + src
    return path, inst, orig, sorted(redirects)


def write_if_changed(path, text):
    try:
        if open(path, encoding="utf-8").read() == text:
            return
    except OSError:
        pass
    tmp = "%s.%d.tmp" % (path, os.getpid())
    with open(tmp, "w", encoding="utf-8") as fh:
        fh.write(text)
    os.replace(tmp, path)


def fix_overlay(ov_path, repo, gen):
    import hashlib
    ov = json.load(open(ov_path))
    rep = ov["Replace"]
    changed = False
    for t in TARGETS:
        path = os.path.join(repo, t["src"])
        own = os.path.join(gen, "c04_%s.go" % t["tag"])
        cur = rep.get(path)
        if cur in (None, own):
            continue
        if cur == "":
            raise GenError("overlay deletes %s" % path)
        _, inst, orig, redirects = instrument(repo, t, source=cur)
        h = hashlib.sha256(inst.encode()).hexdigest()[:12]
        a = os.path.join(gen, "c04_%s.x%s.go" % (t["tag"], h))
        b = os.path.join(gen, "c04_orig_%s.x%s.go" % (t["tag"], h))
        write_if_changed(a, inst)
        write_if_changed(b, orig)
        rep[path] = a
        rep[os.path.join(os.path.dirname(path), "zz_verif_c04_orig_%s.go" % t["tag"])] = b
        sys.stderr.write("gen_c04_vfs.py: instrumented %s (extra overlay) for %s: %s\n" % (cur, t["src"], ", ".join(redirects)))
        changed = True
    if changed:
        tmp = "%s.%d.tmp" % (ov_path, os.getpid())
        json.dump(ov, open(tmp, "w"), indent=1, sort_keys=True)
        os.replace(tmp, ov_path)


def main():
    if len(sys.argv) == 5 and sys.argv[1] == "--fix-overlay":
        try:
            os.makedirs(sys.argv[4], exist_ok=True)
            fix_overlay(sys.argv[2], os.path.abspath(sys.argv[3]), os.path.abspath(sys.argv[4]))
        except GenError as e:
            sys.stderr.write("gen_c04_vfs.py: ERROR: %s\n" % e)
            return 3
        return 0
    if len(sys.argv) != 3:
        sys.stderr.write("usage: gen_c04_vfs.py <repo> <gendir>\n")
        return 2
    repo, gen = os.path.abspath(sys.argv[1]), os.path.abspath(sys.argv[2])
    os.makedirs(gen, exist_ok=True)
    mapping, all_redirects, baseline_ok, files = {}, [], True, []
    try:
        # effective sources: a detection demo may replace a repo file through VERIF_EXTRA_OVERLAY; mkoverlay.py
        # passes that mapping in VERIF_SRC_OVERRIDES so that the MUTANT is what gets instrumented
        overrides = {}
        if os.environ.get("VERIF_SRC_OVERRIDES"):
            overrides = json.load(open(os.environ["VERIF_SRC_OVERRIDES"]))
        for t in TARGETS:
            src_override = overrides.get(os.path.join(repo, t["src"]))
            path, inst, orig, redirects = instrument(repo, t, source=src_override)
            if src_override:
                import hashlib
                t = dict(t, tag="%s.x%s" % (t["tag"], hashlib.sha256(inst.encode()).hexdigest()[:12]))
            files.append((path, t, inst, orig))
            all_redirects += ["%s:%s" % (t["src"], r) for r in redirects]
            if redirects != sorted(t["baseline"]):
                baseline_ok = False
    except GenError as e:
        sys.stderr.write("gen_c04_vfs.py: ERROR: %s\n" % e)
        return 3
    for path, t, inst, orig in files:
        a = os.path.join(gen, "c04_%s.go" % t["tag"])
        b = os.path.join(gen, "c04_orig_%s.go" % t["tag"])
        write_if_changed(a, inst)
        write_if_changed(b, orig)
        mapping[path] = a
        mapping[os.path.join(os.path.dirname(path), "zz_verif_c04_orig_%s.go" % t["tag"].split(".x")[0])] = b
    lst = "".join("\t%s,\n" % json.dumps(r) for r in all_redirects)
    red = ("//go:build verif\n\npackage common\n\n"
           "// Code generated by /verif/tools/gen_c04_vfs.py from the current repo files; DO NOT EDIT.\n\n"
           "// VerifC04Redirects lists the call sites that go through the vfs dispatch in this build\n"
           "// (\"<file>:<func>:<original>-><replacement>\").\n"
           "var VerifC04Redirects = []string{\n%s}\n\n"
           "// VerifC04RedirectsBaseline is false if the redirected call sites differ from the ones present when\n"
           "// the C04 harness was written (the functions were edited; the redirect still covers all their I/O).\n"
           "var VerifC04RedirectsBaseline = %s\n") % (lst, "true" if baseline_ok else "false")
    c = os.path.join(gen, "c04_redirects_gen.go")
    write_if_changed(c, red)
    mapping[os.path.join(repo, "libs/common/zz_verif_c04_redirects_gen.go")] = c
    json.dump(mapping, sys.stdout, indent=1, sort_keys=True)
    sys.stdout.write("\n")
    return 0


if __name__ == "__main__":
    sys.exit(main())
