#!/usr/bin/env python3
# Runs the pinned tests (/root/.vp/BASELINE.json stable_pass) of /repo with the verif guard OFF and reports every pinned test that
# does not pass. Packages are run one go-test process each; a package whose pinned set is a strict subset of its tests is run by name.
import json, subprocess, os, sys, collections
B = json.load(open('/root/.vp/BASELINE.json'))
by = collections.defaultdict(set)
for t in B['stable_pass']:
    pkg, name = t.split('::', 1)
    by[pkg].add(name)
env = dict(os.environ, GOFLAGS='-mod=mod', GOPROXY='off', GOSUMDB='off', GOTOOLCHAIN='local')
bad = []; total = 0
for pkg, names in sorted(by.items()):
    rel = pkg.replace('github.com/lianxiangcloud/linkchain', '.')
    tops = sorted({n.split('/')[0] for n in names})
    cmd = ['go', 'test', '-json', '-vet=off', '-count=1', '-timeout', '25m']
    if 'p2p/conn' in pkg:
        cmd += ['-run', '^(' + '|'.join(tops) + ')$']
    cmd.append(rel)
    p = subprocess.run(cmd, cwd='/repo', env=env, capture_output=True, text=True)
    res = {}
    for line in p.stdout.splitlines():
        try: ev = json.loads(line)
        except Exception: continue
        if ev.get('Test') and ev.get('Action') in ('pass', 'fail', 'skip'):
            res[ev['Test']] = ev['Action']
    for n in sorted(names):
        total += 1
        if res.get(n) != 'pass':
            bad.append((pkg, n, res.get(n)))
    print(f"{rel}: {sum(1 for n in names if res.get(n)=='pass')}/{len(names)} pinned pass", flush=True)
print(f"pinned tests: {total}, not passing: {len(bad)}")
for b in bad: print("NOT-PASSING", *b)
sys.exit(1 if bad else 0)
