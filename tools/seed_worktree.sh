#!/bin/bash
# usage: seed_worktree.sh <name>   -> creates /tmp/seed-<name>/repo (git worktree of /repo HEAD) and
# /tmp/seed-<name>/ov.json (overlay that only swaps in the pure-Go xcrypto stand-in so core packages link).
set -eu
N="$1"; D="/tmp/seed-$N"
mkdir -p "$D"
git -C /repo worktree add --detach "$D/repo" HEAD >/dev/null 2>&1
mkdir -p "$D/gen"
VERIF_REPO="$D/repo" VERIF_NO_HOOKS=1 python3 /verif/tools/mkoverlay.py "$D/ov.json" >/dev/null
# rctops.go copy must not live in /verif/.build (shared): regenerate privately
python3 - "$D" <<'PY'
import json,sys,re,os
D=sys.argv[1]
ov=json.load(open(D+"/ov.json"))
src=D+"/repo/libs/cryptonote/ringct/rctops.go"
txt=open(src).read()
new=re.sub(r'^import "C"\s*$',"",txt,count=1,flags=re.M)
open(D+"/gen/rctops.go","w").write(new)
ov["Replace"][src]=D+"/gen/rctops.go"
json.dump(ov,open(D+"/ov.json","w"),indent=1)
PY
echo "$D"
