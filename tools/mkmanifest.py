#!/usr/bin/env python3
"""Generate /verif/MANIFEST.json from the table below (kept in one place so it is always valid)."""
import json, os, subprocess

VERIF = os.path.dirname(os.path.dirname(os.path.abspath(__file__)))
ALL = ["C%02d" % i for i in range(1, 21)]

# id -> (category, technique, level text, level note, design_ref)
CHECKS = {
 "C03": ("model_checking",
         "exhaustive enumeration of commit slot assignments vs. a math/big reference tally; explicit-state BFS over vote arrival orders on the real VoteSet vs. a plain-map reference; the same commits through the real ValidateBlock and fast-sync poolRoutine call sites",
         "(1) VerifyCommit: every assignment of 16 slot variants (absent, nil, A, B, other hash/parts, H+-1, R+1, prevote-typed, other chain id, corrupted/transplanted signature, wrong index/address/size, another validator's vote) x claimed id in {A,B,nil} for n=1..4 validators over power vectors from {1,2,3,5}^n plus boundary vectors with total just below 2^62; accept iff 3*tally > 2*total in math/big for correctly signed precommits for exactly the claimed id in one round. (2) VoteSet: BFS over arrival orders of valid votes, re-signed duplicates, 10-14 kinds of invalid votes, nil pointers and peer +2/3 claims on a fresh real VoteSet per history (depth 3-6 quick, up to 9 thorough): result class, round sum, per-block tallies, maj23 (at most one, first to cross), HasTwoThirdsAny/HasAll, evidence for conflicts, MakeCommit accepted by VerifyCommit. (3) the commits of (1) through BlockExecutor.ValidateBlock on height-2 blocks and through the real BlockchainReactor.poolRoutine (5 fast-sync scenarios incl. recover blocks).",
         "ed25519 and canonical JSON trusted; n <= 4; total power < 2^62 as the property states; reconstructLastCommit not exercised.",
         "5/C03"),
 "C04": ("fault_enumeration",
         "exhaustive enumeration of signing-request histories x every crash point (every file-system operation boundary, torn last write, power-loss of unsynced data) of the real FilePV over an in-memory file-system shim",
         "All histories of <= 2 requests over the full 120-request alphabet (SignVote/SignProposal/SignVoteWithoutSave x heights {1,2} x rounds {0,1} x steps x blocks {A,B,nil} x 2 timestamps) plus depth 3 on a reduced alphabet (thorough: depth 3 on the full alphabet, 1.7M histories / 22.7M crash scenarios); for each history a crash at every FS operation boundary inside and between calls, torn last write, and loss of unsynced data; the signer is reloaded with LoadFilePV from the surviving bytes and the remaining requests are issued. Oracle over everything ever released without error across process lifetimes: at most one distinct payload per (height, round, step) modulo timestamp, no release below the maximum released HRS, reload never fails on a file the code wrote, a signature is never visible to the caller before its record is durable.",
         "File-system model: rename/create/remove atomic and durable on return; directory-entry durability without a directory fsync is not modelled. The os/ioutil calls of WriteFileAtomic, LoadFilePV and the rest of priv_validator.go/os.go are redirected to the shim by a generator that re-instruments the CURRENT files on every build and fails loudly if the functions changed shape. One crash per history; sequential requests.",
         "5/C04"),
 "C05": ("model_checking",
         "exhaustive enumeration of blocks x execution paths (16 replicas per block) + all permutations of recorded state-update sequences and map orders + preemption-bounded exhaustive exploration (schedx) of the parallel signature pre-check",
         "(1) every block of <= 2 (quick) / <= 3 (thorough) transactions over a 13/21-letter alphabet (transfers, token transfers, creations, calls, reverting calls, self-destruct, confidential in/out/transfer, bad nonces, underfunded) on 2 prior states, executed on 16 replicas: both storage modes x proposer / validator / after- and before-another-proposal / fast-sync / warm-identical cache / warm-twin cache / order-recorder; every listed result (state hash, receipt hash, gas, receipts, logs, bloom, outputs, key images, candidates, persisted stores, AllAccounts) must be identical and CheckBlock must accept what PreRunBlock produced; 36 cases re-run in another process. (2) every permutation of each recorded TryUpdate/TryDelete segment (<= 7 objects) replayed on fresh tries, every iteration and insertion order of 57 token maps through the ser map writer. (3) verifyTxsOnProcess with 2,3,4 workers (children under taskset), one invalid signature or black-listed sender at each position (thorough: pairs), cold/warm/mixed caches: ALL interleavings with <= 2 preemptions; accept/reject and stored senders compared with a sequential reference.",
         "No system contracts / WASM; confidential and upgrade transactions are outside the schedule exploration (need application state); unsynchronised accesses are not seen by the cooperative scheduler (no -race pass).",
         "5/C05"),
 "C06": ("model_checking",
         "explicit-state BFS over chains of blocks (worker subprocesses on the real application) with a per-account reference model and a generator-side ledger of hidden outputs; exhaustive tamper enumeration of every valid confidential transaction",
         "BFS over chains of <= 2 blocks x <= 2 transactions (quick), <= 3 x <= 3 (thorough) over up to 199 operations (every transaction kind x amounts {0,1,unit,unit+1,balance,balance+1,overflow-sized} x fees {min, min+gasprice, non-multiple}), de-duplicated on (all balances, nonces, hidden ledger), both storage modes, ~10.9k / 127k blocks committed. After every block, per token: sum over ALL accounts + unspent hidden outputs changes only by explicit issues and self-destruct-to-self; fee debited == fee collector credit; failed receipts move only fees; A->U and U->A move exactly the declared amounts; every declared hidden output is found by its recipient's scan. Rejection side: 10 hostile constructions and 14-25 tampered variants per valid confidential transaction (txkit.Tampers + foreign range proof, OutPk count mismatch, overflow-sized fee/amounts, re-committed amounts, swapped pseudo outs/MLSAGs/ring signatures) must be rejected by Mempool.AddTx AND by a replica's CheckBlock.",
         "Range proofs are an ideal functionality of the crypto stand-in (commitment equation, MLSAG, ring signatures, ECDH are real); no system WASM contracts; four recorded known findings (ring-of-one minting, CreateAccount drops tokens, credit after self-destruct in the same block, confidential payment to a contract created in the same block).",
         "5/C06"),
 "C07": ("model_checking",
         "explicit-state BFS over chain histories (submissions, blocks from the pool, arbitrary proposer-chosen transaction lists incl. forged headers, restarts) on the real node core vs. a plain-Go model of consumed inputs; preemption-bounded exhaustive exploration (schedx) of AddTx racing AddTx and CommitBlock; crash-state enumeration of the commit of spending blocks followed by re-offering every consumed input",
         "E1: BFS over histories of AddTx(t) / BlockFromMempool / Restart / Block[t1..tk] on the node under test plus a cold validator replica (9 transactions to depth 2 and 5 to depth 3 quick; 16 transactions incl. ring size 3, confidential->account, token, creation, multi-signature to depth 2, blocks <= 3 txs, 8 txs to depth 4 thorough; the 5-transaction alphabet closes at depth 8 = its whole reachable state space), both storage modes; after every history the committed chain read back from the node's own block store must not carry a key image twice nor execute an account transaction at a nonce other than the sender's next, Reap() must not offer a consumed input or the same key image twice and must be executable by PreRunBlock, and warm-cache and cold validators must agree. E2: every interleaving with <= 2 (core scenarios <= 3) preemptions of two AddTx of conflicting spends and one real CommitBlock over the instrumented mempool/app (4 / 16 scenarios, 16k / 180k schedules), oracle on Reap() at quiescence and after sequential re-submission. E3: every prefix of the write log of the commit of a spending block x every distinct undo-log content restarted through the node start-up recipe (37/148 prefixes, 119/552 restarts), every consumed input offered again through the mempool and in a block. State-key adequacy shadow expansions and non-vacuity guards (refused re-use offers, accepted blocks, pool admissions) are part of the run.",
         "Crypto stand-in (key images are the real values; Bulletproofs ideal); minichain node core (no consensus rounds, p2p, system contracts); native coin on the confidential side; one sender; E2 sees sync/atomic operations of the instrumented files only (no -race pass); E3 is the process-crash tier (prefixes of the recorded write log).",
         "5/C07"),
 "C08": ("exploration",
         "bounded-exhaustive input enumeration: every single and pairwise field mutation x signature (r,s,v) boundary product x chain parameter x sender-cache state for every account-based transaction kind; exhaustive wallet x sub-address recognition matrix, key-set spend product and field-binding mutations for confidential transactions (real curve arithmetic)",
         "Account side: for Transaction (transfer/creation), TokenTransaction, UTXOTransaction with account input (coin/token), confidential inputs with account-paid fee, ContractUpgradeTx and MultiSignAccountTx: sign once with a fixed key, then every field mutation from {+1, zero, other, append byte, structural} singly and in pairs, every (r,s,v) from a 7x7x14 boundary set (0,1,N-1,N,N+1,valid,N-s; v incl. 27/28, 35+2c.., wrap values), verifying chain parameter in {c,c+1,0}, cache states {cold, warmed before mutation, warmed through the real mempool/StoreFrom twin}; oracle: recovered sender differs from the original or an error; high-s/out-of-range refused; transaction hash exact and injective over signatures. Confidential side: 3 wallets x 3 sub-addresses + outsider: outputs recognised/decoded by exactly the destination; 27 key sets x R-key x key-image x ring size {1,3} spends through CheckBasic: only the owner's key set is accepted; every single (thorough: pairwise) mutation of inputs, outputs, token, R-keys, fee, extra, account signature changes the ring-signature message and invalidates the authorisation. 257k cases quick / 5.4M thorough, exhaustive within the bounds.",
         "Hardness of secp256k1/ed25519 and of the range proof (ideal functionality in the crypto stand-in) is assumed; one recorded known finding (unprotected v=27/28 signatures are chain-agnostic).",
         "5/C08"),
 "C09": ("model_checking",
         "explicit-state BFS over state-operation sequences on the real StateDB (3 database modes, up to 3 live instances, nested snapshots) vs. deep-copy reference model + untouched-twin root oracle",
         "24 searches per tier (8 alphabets x caching-trie / kv-trie / kv-flat): all sequences over the mutators of the statement (balance, token balance, nonce, code, storage, CreateAccount, Suicide, AddLog, AddRefund) on 2 accounts x 3 tokens x 2 slots interleaved with Snapshot, RevertTo(k-th open), Copy (stay/switch), IntermediateRoot, Commit; full 53-letter alphabet to depth 4, focused alphabets to depth 6-10 (thorough). After every op, on every live instance: all getters equal the model, a throw-away Copy equals its source, and IntermediateRoot/Commit root equal those of an untouched twin that executed only the un-reverted operations.",
         "deleteEmptyObjects=false (the only value the repo passes); balances never negative; kv modes with cache 0; six recorded known findings (see known_findings.json) are explored around, not merged away.",
         "5/C09"),
 "C10": ("model_checking",
         "explicit-state BFS over operation sequences of the real trie vs. map reference model; exhaustive permutation and proof-tamper enumeration",
         "All sequences (quick depth 5, thorough depth 5 on a larger alphabet) of update/delete/hash/commit/flush/cap/dereference/reopen/copy on the real Trie, SecureTrie and trie Database, de-duplicated on a canonical state; after every transition: reads, canonical root (= root of a fresh trie with the same content), root injectivity, iterator stream, genuine proofs; then every insertion permutation of every reached content and every single-node proof tamper (drop, byte substitution, truncation, foreign node). Right level: the property is a for-all over histories of a small sequential library, which bounded exhaustive search decides directly on the code.",
         "Runs the implementation itself; reference model is a Go map. Storage device is MemDB with copying batches (as on-disk backends behave). Bounded by alphabet (6-9 keys with structural collisions, 2-3 values) and depth.",
         "5/C10"),
 "C01": ("model_checking",
         "TLC on a TLA+ model of the voting discipline (Agreement for all interleavings) bound to the code by guard functions cross-validated against TLC's state graph; explicit-state BFS of one real ConsensusState vs. arbitrary environment; deviation-bounded exhaustive exploration of 3 real nodes + 1 Byzantine puppet",
         "Three cooperating exhaustive explorations. (model) TLC enumerates every reachable state of 3 most-general disciplined processes + 1 Byzantine process over rounds 0..1 (thorough: 0..2, capped) and checks Agreement; two weakened variants must violate it (sensitivity). (binding) the Go guard functions for prevote/precommit/decide are compared with TLC's outgoing action labels in every reachable model state. (local) BFS over all environment inputs (proposals, blocks, votes incl. equivocation, timeouts) to ONE real ConsensusState from the initial state and 8 scripted deeper states (locked, round-changed, commit-waiting ...), de-duplicated on a canonical digest of the real RoundState; every vote/commit the real node emits must be an enabled model action. (net) every execution of 3 real nodes + Byzantine proposer with <= 2 deviations (all pairs of Byzantine actions, every single scheduling deviation) checks agreement, the guards, proposer agreement and panics end to end. Right level: safety under all schedules/Byzantine behaviours is exactly what exhaustive state exploration decides; the model gives the all-interleavings argument, the implementation searches bind it to the code.",
         "Trusts TLC for the model. Bounds: 4 validators, equal power in symmetry-reduced searches (one unequal-power search in thorough), rounds 0..1 (0..2 in parts), height 1, depth 4-7 from each start state, <=2-3 deviations. Recover mode never triggered. Synchronous driver calls the same handleMsg/handleTimeout as receiveRoutine.",
         "5/C01"),
 "C02": ("model_checking",
         "exhaustive enumeration of Byzantine proposals (single and pairwise block corruptions x heights x rounds x node positions) against one real ConsensusState; two independent validity oracles",
         "For heights 1..3, rounds 0..1 and every position of the correct node, the puppet proposer applies each of 65 corruptions (every header field, 19 previous-commit corruptions, 13 evidence corruptions, data-section and nil-component corruptions; all unordered pairs at height 2 round 0, thorough: everywhere) to the honest block, re-deriving dependent hashes, and proposes it to the REAL state machine. Oracle: a non-nil prevote/precommit only for blocks that pass the repository's ValidateBlock AND an independent predicate written from the property statement (math/big commit tally); the two oracles must agree on every block; then the other validators vote and the committed block must apply (no panic, no kill request, status advances). Right level: the quantifier is over proposer-constructible blocks, a finite product once fields take boundary values.",
         "Application-level validity is kept true by a trivial in-memory app (consensus-level validation only); 4 equal validators; recover mode never triggered; restart after a failed apply is C13's subject.",
         "5/C02"),
 "C11": ("exploration",
         "bounded-exhaustive value enumeration for every registered and storage type (round trip, re-encode, map orders) + exhaustive hostile-input enumeration (every truncation, byte substitution, item-tree node replacement, prefix swap, all byte strings of length <= 3) into every decoder entry point, in worker subprocesses under RLIMIT_AS",
         "115 root types (49 registered concrete + 15 interface types from the ser registry, 39 unregistered storage/wire types, 12 primitive shapes) x 465 (type, entry point) pairs (DecodeBytes, DecodeBytesWithType, DecodeReader(+WithType) with limit, the four reactor decodeMsg, WALDecoder). Values: every field over a boundary domain with <= 2 (quick) / <= 3 (thorough) fields off default, interface fields over all registered implementers, token maps with <= 4 entries in every insertion order, real signed and confidential transactions: dec(enc(v))==v, enc(dec(enc(v)))==enc(v), equal values encode equally. Hostile: every encoding truncated at every offset, every offset substituted with 16 bytes, every item-tree node replaced by 28 hostile items with recomputed lengths, every type prefix swapped, every byte string of length <= 3: value or error, no panic, no process death, allocation <= 1 MiB + 2048*len(input). 10M decodes quick / 141M thorough.",
         "Decoders are not required to reject non-canonical input (not in the statement); the unlimited ser.Decode on a stream (documented unsafe), JSON codec and unlinked rpc/wallet types are outside.",
         "5/C11"),
 "C12": ("model_checking",
         "exhaustive single-field perturbation of blocks (pair oracle: block hash, part-set header) + explicit-state BFS over all delivery sequences of genuine and forged parts into the real PartSet + exhaustive Merkle proof enumeration",
         "(A) 42 base blocks (heights 1..3, 0..4 transactions incl. one confidential, 0..2 evidence items, real signed LastCommit) x every single perturbation of every header field, transaction (content, order, duplication), evidence item and LastCommit slot (thorough: all pairs): different content must give a different (Block.Hash, MakePartSet(sz).Header()) pair, equal content an equal pair; Vote.SignBytes injective over all ids. (B) opx BFS over all delivery sequences of the genuine parts and ~35 forgeries per index (bytes, index incl. negative/MaxInt, proof aunts, parts of other blocks/part sizes) into NewPartSetFromHeader, parts travelling through the wire codec, all orders up to 6 (quick) / 8 (thorough) parts; completed sets are read back, decoded and stored/loaded through a real BlockStore. (C) SimpleProof.Verify for all (index,total) <= 9 / 16 with every single-aunt tamper.",
         "keccak-256 treated as collision-free on the enumerated inputs; confidential inputs (rings) not enumerated; which error value AddPart returns is not judged.",
         "5/C12"),
 "C17": ("model_checking",
         "exhaustive enumeration of validator sets x rotation compositions vs. an independent weighted round-robin reference; explicit-state BFS over set operations and updateStatus chains; in-simulation comparison of real nodes stepping vs skipping rounds",
         "(1) path independence: 780+258 (thorough 9,330+2,800) validator sets (<= 4/5 validators, powers incl. saturating values) x every composition of k <= 7 (9) increments from every state after 0..6 (8) single steps; (2) proportionality over 3 periods with every sliding window and step-by-step equality with an independent smooth weighted round-robin; (3) identity: all input permutations, opx BFS depth 6 over Add/Update/Remove/IncrementAccum/Copy/Save+Load, updateStatus with every order of the same update list and on reloaded status; (4) saturation vs math/big clipped arithmetic; (5) real ConsensusState nodes reaching (h,r) by stepping, by skipping and by skip-then-step must name the same proposer and accept its proposal.",
         "Sets of <= 5-6 validators, k <= 9; powers > 0, no duplicate addresses. One known finding: the batch form IncrementAccum(n) differs from n single steps (after fix 67c60c9 only used for the fault-evidence proposer).",
         "5/C17"),
 "C18": ("model_checking",
         "deviation-bounded exhaustive exploration (devx) of raw-connection read answers under SecretConnection write/read size products; exhaustive handshake tamper enumeration against the real MakeSecretConnection and the production addPeer path; explicit-state BFS over MConnection packetisation events",
         "stream: write sizes {1,2,1023,32767,32768,32769,65537} x read buffer sizes and pairs x every execution with <= 2 (3) short reads at any Read call: bytes read == bytes written, in order. handshake: 5,996 (17,988) tampers (ephemeral-key flips, replayed/reflected auth/session/ephemeral messages incl. live loop-back, truncation at every byte, raw and plaintext auth-frame flips, hostile frame headers, wrong signer/key/challenge, nil, split frames): error on the tampered side; production path addInboundPeerWithConfig -> addPeer must bind the NodeInfo key to the authenticated key. mconn: opx BFS depth 6 (7) over Send/sendPacketMsg/flush/deliver events on 2-3 channels with priority mixes and message sizes around the packet size, real recvRoutine on a wire that reports blocking: per channel delivered == sent, whole and in order. stack: MConnection over SecretConnection under short raw reads.",
         "Compiled-in frame mode only (as the property says); sendRoutine's select/timer glue, ping/pong and flow-rate throttling not exercised (timers set to hours).",
         "5/C18"),
 "C19": ("model_checking",
         "explicit-state BFS over operation sequences on every real backend (memdb, goleveldb, bolt, badger, fsdb, prefix views) vs. a sorted-map reference model, 184 observations per state",
         "16 searches (11 quick): all sequences of Set/SetSync/Put, Delete/DeleteSync/Del, batch Set/Delete/Write/WriteSync/Commit/Reset/abandon and Close+reopen over the key shapes {nil, '', a, a\\x00, a\\xff, b, \\xff, \\xff\\xff}, depth 3-5 depending on backend cost; after every history Get/Has/Load/Exist of all 8 keys and the full key/value stream of Iterator and ReverseIterator for all 64 (start,end) pairs, NewIteratorWithPrefix and IteratePrefix for every prefix are compared with the model; batches must be invisible until written and then entirely visible in their own order.",
         "db_counts=1 (default); cleveldb does not compile under its build tag and is left out; empty values and the error value for a missing key are excluded as the property says; two recorded known findings (bolt/badger cannot store the empty key).",
         "5/C19"),
 "C13": ("fault_enumeration",
         "exhaustive crash-state enumeration: every prefix of the global write log of every 1-3 block history (+ every order ideal of the concurrent SaveBlock writers, torn undo-log appends, power-loss of unsynced suffixes) materialised and restarted through the mirrored node start-up recipe; exhaustive pruning-configuration enumeration",
         "Crash half: all 97 (thorough 171) valid histories of 1-3 blocks over the kinds transfer / confidential outputs / confidential spend / evidence / validator change (/ contract) in both storage modes on logging devices (8 databases + the flat-state undo log file). Process-crash tier: every prefix of the write log, every reachable set of completed units of the three concurrent SaveBlock goroutines, torn undo-log appends at structural (thorough: all) byte offsets; power-loss tier (thorough): per prefix one or two devices lose a suffix of <= 4 unsynced units. On every crash state the start-up recipe of node.NewNode (mirrored, fingerprinted) is run: it must not fail; block store, state root/hash/AllAccounts, key images, output index, tx index, consensus status and validator/parameter records must all reflect the SAME prefix h >= acknowledged blocks; then the remaining blocks are committed and the final state must equal the crash-free run. Pruning half: chain length 1..8 x retention 1..10 x validator-change height x (once|twice) for both pruners: termination and loadability of every record needed for the retained heights.",
         "Write units atomic per device (db_counts=1); undo log only truncated to 0 or appended; one crash per history; node.go's recipe is mirrored in minichain (fingerprint check adds an assumption if node.go changes). Known findings: output-index half of the SaveBlock/SaveUtxo window and four power-loss flush-ordering keys.",
         "5/C13"),
 "C14": ("fault_enumeration",
         "exhaustive enumeration of WAL write histories on the real baseWAL/autofile.Group (incl. rotation ticks, restarts, crash = head buffer lost) and, per byte image, of every truncation offset and every single-byte alteration, read back through the real GroupReader/WALDecoder/SearchForEndHeight in worker subprocesses",
         "Part 1: all histories to depth 4 (full 19-event alphabet) / 5 (core) / 3 (oversize) quick, 5/7/4 thorough, over Write/WriteSync of every record kind the node writes (vote, proposal, parts of 100 B/32 KiB/45 KiB/max size, timeout, step, ascending EndHeight markers), explicit rotation ticks with head limit 1, clean restarts; each read back twice (crash: files as on disk with the head buffer lost; clean stop). Part 2: for 724 (thorough 12,960) byte-deterministic images every truncation offset and every single-byte alteration (4 values) of every file: 1.8M / 30.7M damaged variants, 6.7M / 132M marker searches. Oracle: messages read back are exactly written records in order, everything intact before the damage is replayed, undamaged logs fully replayed, no panic, no read beyond the cap; a marker is found iff it was completely written (also when the end of the log is cut); never an unwritten marker.",
         "Crash loses exactly the head buffer (torn sectors, lost renames, two crashes in a row outside); the 1 s ticker that reopens the head fd is not modelled; payloads do not embed byte images of valid records.",
         "5/C14"),
 "C16": ("model_checking",
         "exhaustive state x message product on the real reactor + state machine (boundary-value fields, signature modes, wrong channels, raw byte truncation/substitution), worker subprocesses under ulimit -v",
         "11 scripted consensus states (every step of height 1, round 1, height 2) x every hostile message of the alphabet (about 1800 typed messages: each field of Vote/Proposal/BlockPart/state-channel messages at boundary values x 5 signature modes, every message kind on every wrong channel; about 9700 raw byte strings: every truncation and every single-byte substitution from 11 values of 6 valid encodings); thorough adds all ordered pairs of consensus-relevant messages. Each case goes through ConsensusReactor.Receive as the p2p layer delivers it, then whatever was queued through handleMsg, then timeouts. Oracle: no panic or process death in the state machine; invalid messages leave the RoundState digest unchanged.",
         "One hostile peer (a Byzantine validator's signed message counts as one peer). Panics inside Receive are contained by MConnection's recover (recorded). Process death by unbounded allocation is observed through worker subprocesses (6 GiB address-space limit).",
         "5/C16"),
}

NOT_YET = "check not built yet in this round (design in DESIGN.md section 5); no claim is made"

def main():
    checks = []
    for pid in ALL:
        if pid not in CHECKS:
            continue
        cat, tech, text, note, ref = CHECKS[pid]
        checks.append({
            "property_id": pid,
            "quick_cmd": "./check %s --tier quick" % pid,
            "thorough_cmd": "./check %s --tier thorough" % pid,
            "evidence_file": "/verif/evidence/%s.json" % pid,
            "replay_cmd_template": "./check %s --replay {path}" % pid,
            "engine": "verif/harness (opx/schedx/crashx engines written for this task)",
            "level_claimed": {"category": cat, "text": text, "design_ref": ref},
            "level_note": note,
            "technique": tech,
        })
    na = [{"property_id": p, "reason": NOT_YET} for p in ALL if p not in CHECKS]
    hooks_commits = []
    try:
        out = subprocess.check_output(["git", "-C", "/repo", "log", "--format=%H %s"], text=True)
        for l in out.splitlines():
            h, s = l.split(" ", 1)
            if s.startswith("verif-hook:"):
                hooks_commits.append(h)
    except Exception:
        pass
    m = {
        "version": 1,
        "setup_cmd": "./setup.sh",
        "hooks": {
            "guard": "verif",
            "enable": "go build -tags verif -overlay /verif/.build/overlay.json (overlay regenerated from /repo's working tree by tools/mkoverlay.py: pure-Go stand-in for the absent cgo library libs/cryptonote/xcrypto + add-only //go:build verif files from /verif/hooks projected into repo packages; no file of /repo is modified)",
            "baseline_off_cmd": "cd /repo && GOFLAGS=-mod=mod go test -vet=off -count=1 -timeout 25m ./...",
            "source_commits": hooks_commits,
            "add_only": True,
        },
        "engines": [
            {"name": "opx", "path": "/verif/harness/vk/opx.go", "serves_properties": sorted(CHECKS.keys()),
             "kind_free_text": "explicit-state breadth-first search over operation sequences of the real code (fresh instance + replay per successor), canonical state keys, reference-model oracle"},
            {"name": "devx", "path": "/verif/harness/vk/devx.go", "serves_properties": ["C01", "C18"],
             "kind_free_text": "deviation-bounded exhaustive exploration: every execution whose environment answers deviate from the default schedule with total cost <= bound (iterative context bounding generalised to message delivery, timeouts, Byzantine actions, short reads)"},
            {"name": "TLC", "path": "/verif/models/TMDiscipline.tla", "serves_properties": ["C01"],
             "kind_free_text": "pre-installed explicit-state model checker on a TLA+ model; bound to the code through guard functions cross-validated against the dumped state graph"},
        ],
        "checks": checks,
        "not_applicable": na,
        "notes": "All checks decide by bounded exhaustive enumeration on the real code (model checking family). ./check <ID> rebuilds from /repo's working tree on every invocation. known_findings.json lists recorded genuine defects.",
    }
    json.dump(m, open(os.path.join(VERIF, "MANIFEST.json"), "w"), indent=1)
    print("MANIFEST.json: %d checks, %d not claimed" % (len(checks), len(na)))

main()
