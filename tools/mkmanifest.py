#!/usr/bin/env python3
"""Generate /verif/MANIFEST.json from the table below (kept in one place so it is always valid)."""
import json, os, subprocess

VERIF = os.path.dirname(os.path.dirname(os.path.abspath(__file__)))
ALL = ["C%02d" % i for i in range(1, 21)]

# id -> (category, technique, level text, level note, design_ref)
CHECKS = {
 "C10": ("model_checking",
         "explicit-state BFS over operation sequences of the real trie vs. map reference model; exhaustive permutation and proof-tamper enumeration",
         "All sequences (quick depth 5, thorough depth 5 on a larger alphabet) of update/delete/hash/commit/flush/cap/dereference/reopen/copy on the real Trie, SecureTrie and trie Database, de-duplicated on a canonical state; after every transition: reads, canonical root (= root of a fresh trie with the same content), root injectivity, iterator stream, genuine proofs; then every insertion permutation of every reached content and every single-node proof tamper (drop, byte substitution, truncation, foreign node). Right level: the property is a for-all over histories of a small sequential library, which bounded exhaustive search decides directly on the code.",
         "Runs the implementation itself; reference model is a Go map. Storage device is MemDB with copying batches (as on-disk backends behave). Bounded by alphabet (6-9 keys with structural collisions, 2-3 values) and depth.",
         "5/C10"),
}

NOT_YET = "check not built yet in this round (design in DESIGN.md section 5); no claim is made"

def main():
    checks = []
    for pid in ALL:
        if pid not in CHECKS:
            continue
        cat, tech, text, note, ref = CHECKS[pid]
        checks.append({
            "property_id": pid,
            "quick_cmd": "./check %s --tier quick" % pid,
            "thorough_cmd": "./check %s --tier thorough" % pid,
            "evidence_file": "/verif/evidence/%s.json" % pid,
            "replay_cmd_template": "./check %s --replay {path}" % pid,
            "engine": "verif/harness (opx/schedx/crashx engines written for this task)",
            "level_claimed": {"category": cat, "text": text, "design_ref": ref},
            "level_note": note,
            "technique": tech,
        })
    na = [{"property_id": p, "reason": NOT_YET} for p in ALL if p not in CHECKS]
    hooks_commits = []
    try:
        out = subprocess.check_output(["git", "-C", "/repo", "log", "--format=%H %s"], text=True)
        for l in out.splitlines():
            h, s = l.split(" ", 1)
            if s.startswith("verif-hook:"):
                hooks_commits.append(h)
    except Exception:
        pass
    m = {
        "version": 1,
        "setup_cmd": "./setup.sh",
        "hooks": {
            "guard": "verif",
            "enable": "go build -tags verif -overlay /verif/.build/overlay.json (overlay regenerated from /repo's working tree by tools/mkoverlay.py: pure-Go stand-in for the absent cgo library libs/cryptonote/xcrypto + add-only //go:build verif files from /verif/hooks projected into repo packages; no file of /repo is modified)",
            "baseline_off_cmd": "cd /repo && GOFLAGS=-mod=mod go test -vet=off -count=1 -timeout 25m ./...",
            "source_commits": hooks_commits,
            "add_only": True,
        },
        "engines": [
            {"name": "opx", "path": "/verif/harness/vk/opx.go", "serves_properties": sorted(CHECKS.keys()),
             "kind_free_text": "explicit-state breadth-first search over operation sequences of the real code (fresh instance + replay per successor), canonical state keys, reference-model oracle"},
        ],
        "checks": checks,
        "not_applicable": na,
        "notes": "All checks decide by bounded exhaustive enumeration on the real code (model checking family). ./check <ID> rebuilds from /repo's working tree on every invocation. known_findings.json lists recorded genuine defects.",
    }
    json.dump(m, open(os.path.join(VERIF, "MANIFEST.json"), "w"), indent=1)
    print("MANIFEST.json: %d checks, %d not claimed" % (len(checks), len(na)))

main()
