#!/usr/bin/env python3
"""Regenerate /verif/.build/overlay.json from the CURRENT working tree of /repo.

The overlay
  1. replaces the cgo package libs/cryptonote/xcrypto (its native library is absent from this
     sandbox) by the pure-Go stand-in in /verif/xcrypto_model,
  2. strips the stray `import "C"` from libs/cryptonote/ringct/rctops.go (copy generated from the
     current file, every other line untouched),
  3. projects the add-only, tag-guarded hook files of /verif/hooks/<pkg>/ into /repo/<pkg>/,
  4. merges an optional extra overlay (VERIF_EXTRA_OVERLAY=<json file>) used by detection demos.
Nothing in /repo is written.
"""
import json, os, sys, glob, re

REPO = os.environ.get("VERIF_REPO", "/repo")
VERIF = os.path.dirname(os.path.dirname(os.path.abspath(__file__)))
BUILD = os.path.join(VERIF, ".build")
GEN = os.path.join(BUILD, "gen")
os.makedirs(GEN, exist_ok=True)

rep = {}

# 1. xcrypto stand-in
xdir = os.path.join(REPO, "libs/cryptonote/xcrypto")
for f in sorted(glob.glob(os.path.join(xdir, "*.go"))):
    if f.endswith("_test.go"):
        continue
    rep[f] = ""
XMODEL = os.environ.get("VERIF_XCRYPTO_DIR", os.path.join(VERIF, "xcrypto_model"))
for f in sorted(glob.glob(os.path.join(XMODEL, "*.go"))):
    if f.endswith("_test.go"):
        continue
    rep[os.path.join(xdir, "zz_verif_" + os.path.basename(f))] = f

# 2. rctops.go without import "C"
src = os.path.join(REPO, "libs/cryptonote/ringct/rctops.go")
if os.path.exists(src):
    txt = open(src).read()
    new = re.sub(r'^import "C"\s*$', "", txt, count=1, flags=re.M)
    dst = os.path.join(GEN, "rctops.go")
    if not os.path.exists(dst) or open(dst).read() != new:
        open(dst, "w").write(new)
    rep[src] = dst

# 3. hooks
hroot = os.path.join(VERIF, "hooks")
if os.environ.get("VERIF_NO_HOOKS"):
    hroot = os.path.join(VERIF, "no-such-dir")
for d, _, files in os.walk(hroot):
    for fn in sorted(files):
        if not fn.endswith(".go"):
            continue
        rel = os.path.relpath(d, hroot)
        name = fn if fn.startswith("zz_verif_") else "zz_verif_" + fn
        rep[os.path.join(REPO, rel, name)] = os.path.join(d, fn)

# 3a. virtual packages of the cooperative scheduler (only compiled into binaries whose instrumented files import them)
for d, _, files in os.walk(os.path.join(VERIF, "vsched")):
    for fn in sorted(files):
        if fn.endswith(".go") and not fn.endswith("_test.go"):
            rel = os.path.relpath(d, os.path.join(VERIF, "vsched"))
            rep[os.path.normpath(os.path.join(REPO, "libs/vsched", rel, fn))] = os.path.join(d, fn)

# 3b. generated instrumented copies: every tools/gen_*.py prints a JSON object {repo path: replacement path}
# (it regenerates the replacement from the CURRENT repo file into .build/gen/)
import subprocess
# The extra overlay (detection demos: mutated copies of repo files) is merged BEFORE the generators, and its mapping
# is handed to them (VERIF_SRC_OVERRIDES) so that they instrument the mutant, not the file it replaces.
extra = os.environ.get("VERIF_EXTRA_OVERLAY")
genv = dict(os.environ)
if extra:
    xrep = json.load(open(extra))["Replace"]
    rep.update(xrep)
    opath = os.path.join(BUILD, "ov", "overrides.%d.json" % os.getpid())
    os.makedirs(os.path.dirname(opath), exist_ok=True)
    json.dump(xrep, open(opath, "w"))
    genv["VERIF_SRC_OVERRIDES"] = opath
for g in ([] if os.environ.get("VERIF_NO_HOOKS") else sorted(glob.glob(os.path.join(VERIF, "tools", "gen_*.py")))):
    o = subprocess.check_output([sys.executable, g, REPO, GEN], text=True, env=genv)
    rep.update(json.loads(o))
if extra:
    os.remove(opath)

out = sys.argv[1] if len(sys.argv) > 1 else os.path.join(BUILD, "overlay.json")
tmp = out + ".%d" % os.getpid()
json.dump({"Replace": rep}, open(tmp, "w"), indent=1, sort_keys=True)
os.replace(tmp, out)
print(out)
