#!/bin/bash
# usage: agent_prompt.sh C19  -> prints the builder prompt for that property
ID=$1
PROP=$(grep "\"id\": *\"$ID\"" /verif/properties.jsonl)
cat <<P
You are building one model-checking harness in an existing verification framework for the Go repository /repo
(lianxiangcloud/linkchain, a Tendermint-style blockchain node). Work autonomously until the check is complete,
passing on the unchanged tree (or alarming only for genuine, reproduced repo defects), and shown to catch mutants.

FIRST read, in this order:
  1. /verif/HARNESS_GUIDE.md  (framework conventions and hard rules — follow them exactly)
  2. /verif/harness/cmd/c10/main.go and /verif/harness/vk/*.go  (the exemplar check and the engine API)
  3. the section "### $ID" of /verif/DESIGN.md (the design for your property: alphabet, bounds, oracle, planned
     mutants, suspected findings) and section 7 (suspected defects table) — grep for "$ID"
  4. the repo code the property is anchored in.

YOUR PROPERTY (given and fixed; implement a check for exactly this statement, no more, no less):
$PROP

DELIVERABLE: /verif/harness/cmd/$(echo $ID | tr A-Z a-z)/main.go (package main; more files in that directory are fine),
any hook files under /verif/hooks/<pkg>/ you need, /verif/detection/$ID.md, and a final report as described in the
guide. The check is run as: /verif/check $ID --tier quick   and   /verif/check $ID --tier thorough.
Follow the DESIGN section for $ID closely but use your judgment where the code differs from what the design assumed;
cover as much of the designed alphabet as fits the time limits (quick <= ~2 min, thorough <= ~30 min on 16 cores),
and say in your report what you left out. The deciding step must be exhaustive enumeration within stated bounds.
Other engineers are building other checks concurrently in the same tree: touch only your own files, use unique
scratch directories (/tmp/$ID-*, /dev/shm/$ID-*), and clean them up. Do not run more than ~6 CPU-heavy processes at once.
P
