#!/bin/bash
# verify_seed.sh <name> <demo pkg dir> <demo test regex> [pinned leaf test packages touched by the patch...]
# Confirms in the seed's scratch worktree: patch compiles, demo FAILS with the patch, PASSES without it, pinned tests of
# touched leaf packages pass with the patch. Prints a JSON summary.
N=$1; PKG=$2; RX=$3; shift 3
D=/tmp/seed-$N; R=$D/repo
export GOFLAGS=-mod=mod GOPROXY=off GOSUMDB=off GOTOOLCHAIN=local
cd $R || exit 2
git apply --check -R $D/patch.diff 2>/dev/null || git apply $D/patch.diff   # make sure patch is applied
ls $PKG/zz_seed_demo_test.go >/dev/null 2>&1 || cp $D/demo_test.go $PKG/zz_seed_demo_test.go
B=$(go build -overlay $D/ov.json ./... >/dev/null 2>&1 && echo true || echo false)
W=$(go test -overlay $D/ov.json -vet=off -count=1 -run "$RX" ./$PKG/ >/dev/null 2>&1 && echo pass || echo fail)
git apply -R $D/patch.diff
O=$(go test -overlay $D/ov.json -vet=off -count=1 -run "$RX" ./$PKG/ >/dev/null 2>&1 && echo pass || echo fail)
git apply $D/patch.diff
P=true
mv $PKG/zz_seed_demo_test.go $D/zz_seed_demo_test.go.away
for t in "$@"; do go test -vet=off -count=1 ./$t/ >/dev/null 2>&1 || P=false; done
mv $D/zz_seed_demo_test.go.away $PKG/zz_seed_demo_test.go
echo "{\"seed\":\"$N\",\"builds_with_patch\":$B,\"demo_with_patch\":\"$W\",\"demo_without_patch\":\"$O\",\"pinned_tests_of_touched_leaf_packages_pass\":$P,\"pinned_packages_run\":\"$*\"}"
