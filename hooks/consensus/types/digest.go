//go:build verif

package types

import (
	"fmt"
	"sort"
	"strings"
)

// VerifDigest canonically renders the vote bookkeeping of a height (see types.VoteSet.VerifDigest).
// Rounds whose two vote sets are still empty are skipped: a vote for an unknown round allocates a round
// entry before the vote's signature is checked (bounded per peer); that allocation is not state the
// handlers' decisions depend on.
func (hvs *HeightVoteSet) VerifDigest() string { return hvs.VerifDigestSym(-1) }

// VerifDigestSym: self >= 0 selects the symmetry-reduced rendering (see types.VoteSet.VerifDigestSym).
func (hvs *HeightVoteSet) VerifDigestSym(self int) string {
	if hvs == nil {
		return "nil"
	}
	hvs.mtx.Lock()
	defer hvs.mtx.Unlock()
	var b strings.Builder
	fmt.Fprintf(&b, "h%d round=%d", hvs.height, hvs.round)
	rs := make([]int, 0, len(hvs.roundVoteSets))
	for r := range hvs.roundVoteSets {
		rs = append(rs, r)
	}
	sort.Ints(rs)
	for _, r := range rs {
		rv := hvs.roundVoteSets[r]
		if rv.Prevotes.VerifEmpty() && rv.Precommits.VerifEmpty() {
			continue
		}
		if self >= 0 {
			fmt.Fprintf(&b, " | r%d PV{%s} PC{%s}", r, rv.Prevotes.VerifDigestSym(self), rv.Precommits.VerifDigestSym(self))
		} else {
			fmt.Fprintf(&b, " | r%d PV{%s} PC{%s}", r, rv.Prevotes.VerifDigest(), rv.Precommits.VerifDigest())
		}
	}
	return b.String()
}

// VerifCatchupRounds renders the per-peer catch-up round allowance (consumed by votes for unknown rounds).
func (hvs *HeightVoteSet) VerifCatchupRounds() string {
	hvs.mtx.Lock()
	defer hvs.mtx.Unlock()
	ps := make([]string, 0, len(hvs.peerCatchupRounds))
	for p := range hvs.peerCatchupRounds {
		ps = append(ps, p)
	}
	sort.Strings(ps)
	var b strings.Builder
	for _, p := range ps {
		fmt.Fprintf(&b, "%s:%v;", p, hvs.peerCatchupRounds[p])
	}
	return b.String()
}

// VerifRoundCount is the number of rounds this height's vote bookkeeping holds vote sets for.
func (hvs *HeightVoteSet) VerifRoundCount() int {
	hvs.mtx.Lock()
	defer hvs.mtx.Unlock()
	return len(hvs.roundVoteSets)
}
