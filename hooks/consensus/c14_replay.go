//go:build verif

package consensus

// Add-only test seam for check C14, part "replay": runs the REAL catchupReplay of a ConsensusState over a given WAL
// and reports which messages it handed to the state machine (readReplayMessage logs one "Replay: <kind>" line per
// message before it calls handleMsg / handleTimeout; the lines are captured with the state's own logger).

import (
	"fmt"
	"strings"

	"github.com/lianxiangcloud/linkchain/libs/log"
)

// VerifCatchupReplay sets cs.wal = w, calls cs.catchupReplay(h) under recover and returns the applied messages in
// order as "<kind> round=<round>" (kind: Timeout, Vote, Proposal, BlockPart, New Step) and the outcome: "nil",
// "error: ..." or "panic: ...".
func VerifCatchupReplay(cs *ConsensusState, w WAL, h uint64) (applied []string, outcome string) {
	lg := log.New()
	lg.SetHandler(log.FuncHandler(func(r *log.Record) error {
		if !strings.HasPrefix(r.Msg, "Replay: ") {
			return nil
		}
		kind := strings.TrimPrefix(r.Msg, "Replay: ")
		switch kind {
		case "Timeout", "Vote", "Proposal", "BlockPart", "New Step":
		default:
			return nil
		}
		round := interface{}("?")
		for i := 0; i+1 < len(r.Ctx); i += 2 {
			if k, ok := r.Ctx[i].(string); ok && k == "round" {
				round = r.Ctx[i+1]
			}
		}
		applied = append(applied, fmt.Sprintf("%s round=%v", kind, round))
		return nil
	}))
	oldW, oldL := cs.wal, cs.Logger
	cs.wal, cs.Logger = w, lg
	defer func() {
		cs.wal, cs.Logger = oldW, oldL
		if e := recover(); e != nil {
			outcome = fmt.Sprintf("panic: %v", e)
		}
	}()
	if err := cs.catchupReplay(h); err != nil {
		return applied, "error: " + err.Error()
	}
	return applied, "nil"
}
