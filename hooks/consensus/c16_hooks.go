//go:build verif

package consensus

import (
	"sync"

	"github.com/lianxiangcloud/linkchain/libs/p2p"
	"github.com/lianxiangcloud/linkchain/types"
)

// VerifNewReactor attaches a real ConsensusReactor to a harness-driven node: the reactor is started in
// fast-sync mode (so that Start does not launch receiveRoutine) and then switched to consensus mode, which
// is the state Receive is in on a running node.
func VerifNewReactor(n *VerifNode, sw p2p.P2PManager) *ConsensusReactor {
	r := NewConsensusReactor(n.CS, true, sw)
	if err := r.Start(); err != nil {
		panic(err)
	}
	r.mtx.Lock()
	r.fastSync = false
	r.mtx.Unlock()
	return r
}

// VerifAttachPeer gives the peer the PeerState AddPeer would give it (without the gossip goroutines).
func VerifAttachPeer(peer p2p.Peer) { peer.Set(types.PeerStateKey, NewPeerState(peer)) }

// VerifPeerQueueLen is the number of messages the reactor has queued for the state machine.
func (n *VerifNode) VerifPeerQueueLen() int { return len(n.CS.peerMsgQueue) }

// VerifStepPeerQueue hands the oldest queued peer message to handleMsg, as receiveRoutine does.
func (n *VerifNode) VerifStepPeerQueue() ConsensusMessage {
	select {
	case mi := <-n.CS.peerMsgQueue:
		n.CS.wal.Write(mi) // receiveRoutine logs every peer message before it looks at it (a no-op with the default nil WAL)
		n.CS.handleMsg(mi)
		return mi.Msg
	default:
		return nil
	}
}

// VerifGossip runs the three per-peer routines AddPeer starts for a peer (gossipDataRoutine, gossipVotesRoutine,
// queryMaj23Routine - the real ones, as goroutines, exactly as in production: a panic in them is NOT recovered and ends
// the process) until the peer reports !IsRunning(), which the harness peer does after a bounded number of polls.
func (conR *ConsensusReactor) VerifGossip(peer p2p.Peer) {
	ps := peer.Get(types.PeerStateKey).(*PeerState)
	var wg sync.WaitGroup
	for _, f := range []func(p2p.Peer, *PeerState){conR.gossipDataRoutine, conR.gossipVotesRoutine, conR.queryMaj23Routine} {
		wg.Add(1)
		go func(f func(p2p.Peer, *PeerState)) {
			defer wg.Done()
			f(peer, ps)
		}(f)
	}
	wg.Wait()
}

// VerifMaxMsgSize is the largest message the reactor accepts from a peer.
func VerifMaxMsgSize() int { return maxMsgSize }

// VerifUseFileWAL gives the node a real write-ahead log in dir, as OnStart does on a running node (loadWalFile + Start);
// the returned function stops it.
func (n *VerifNode) VerifUseFileWAL(dir string) (stop func(), err error) {
	wal, err := NewWAL(dir + "/wal")
	if err != nil {
		return nil, err
	}
	if err := wal.Start(); err != nil {
		return nil, err
	}
	n.CS.wal = wal
	return func() { wal.Stop(); n.CS.wal = nilWAL{} }, nil
}
