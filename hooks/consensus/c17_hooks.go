//go:build verif

package consensus

import "github.com/lianxiangcloud/linkchain/types"

// Add-only test seam for check C17 (see /verif/harness/cmd/c17). Nothing here changes behaviour; it only makes
// three unexported functions of this package callable from the harness.

// VerifC17UpdateStatus calls the unexported updateStatus: the step that derives the status (and with it the
// validator set of the next height) from the committed header and the validator list returned by the application.
func VerifC17UpdateStatus(status NewStatus, blockID types.BlockID, header *types.Header, validators []*types.Validator) (NewStatus, error) {
	return updateStatus(status, blockID, header, validators)
}

// VerifC17LastFaultValsInfo calls the unexported getLastFaultValsInfo: the fault-validator record a proposer puts
// into the next block (who was the round-0 proposer of the last height, who proposed in the commit round).
func VerifC17LastFaultValsInfo(cs *ConsensusState, lastCommit *types.Commit) types.Evidence {
	return cs.getLastFaultValsInfo(lastCommit)
}

// VerifC17UpdateValidators calls the unexported updateValidators: the incremental add / update / remove of a
// change list on a validator set (ValidatorSet.Add / Update / Remove behind one entry point).
func VerifC17UpdateValidators(set *types.ValidatorSet, changes []*types.Validator) error {
	return updateValidators(set, changes)
}
