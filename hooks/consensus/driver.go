//go:build verif

package consensus

// Synchronous driver for the verification harness (add-only; build tag verif).
//
// The production node runs receiveRoutine, which selects among the peer queue, the internal queue and
// the timeout ticker and calls handleMsg / handleTimeout. The harness calls the SAME handlers directly,
// one input at a time, from one goroutine, so that it decides the order of every input (that order is
// exactly the nondeterminism the properties quantify over). Nothing here changes handler behaviour.

import (
	"fmt"
	"strings"
	"time"

	cfg "github.com/lianxiangcloud/linkchain/config"
	cstypes "github.com/lianxiangcloud/linkchain/consensus/types"
	"github.com/lianxiangcloud/linkchain/libs/log"
	"github.com/lianxiangcloud/linkchain/types"
)

// VerifTimeout mirrors the unexported timeoutInfo (without the duration).
type VerifTimeout struct {
	Height uint64
	Round  int
	Step   cstypes.RoundStepType
}

func (t VerifTimeout) String() string { return fmt.Sprintf("%d/%d/%d", t.Height, t.Round, t.Step) }

// verifTicker replaces timeoutTicker: it keeps the ONE pending timeout the real ticker would keep
// (same "ignore ticks for an older height/round/step" rule as timeoutRoutine) and lets the harness
// decide when it fires.
type verifTicker struct {
	last    timeoutInfo
	pending *timeoutInfo
	ch      chan timeoutInfo
	log     []VerifTimeout
}

func (t *verifTicker) Start() error             { return nil }
func (t *verifTicker) Stop() error              { return nil }
func (t *verifTicker) Reset() error             { return nil }
func (t *verifTicker) Chan() <-chan timeoutInfo { return t.ch }
func (t *verifTicker) SetLogger(log.Logger)     {}
func (t *verifTicker) ScheduleTimeout(newti timeoutInfo) {
	ti := t.last
	// same filter as timeoutTicker.timeoutRoutine
	if newti.Height < ti.Height {
		return
	} else if newti.Height == ti.Height {
		if newti.Round < ti.Round {
			return
		} else if newti.Round == ti.Round {
			if ti.Step > 0 && newti.Step <= ti.Step {
				return
			}
		}
	}
	t.last = newti
	c := newti
	t.pending = &c
	t.log = append(t.log, VerifTimeout{newti.Height, newti.Round, newti.Step})
}

// VerifNode is one real ConsensusState under harness control.
type VerifNode struct {
	CS     *ConsensusState
	ticker *verifTicker
	bus    *types.EventBus
	// Sent: the node's own proposals, block parts and votes in the order they left the internal queue
	// (what the reactor would gossip to peers).
	Sent []ConsensusMessage
}

// VerifNewNode builds a ConsensusState exactly as node.NewNode does (NewConsensusState, SetPrivValidator,
// SetEventBus) but with the harness ticker, then performs the part of OnStart that matters without
// receiveRoutine: scheduleRound0.
func VerifNewNode(config *cfg.ConsensusConfig, status NewStatus, blockExec *BlockExecutor, app BlockChainApp,
	mempool Mempool, evpool EvidencePool, pv types.PrivValidator) *VerifNode {
	cs := NewConsensusState(config, status, blockExec, app, mempool, evpool)
	if pv != nil {
		cs.SetPrivValidator(pv)
	}
	t := &verifTicker{ch: make(chan timeoutInfo)}
	cs.SetTimeoutTicker(t)
	bus := types.NewEventBus()
	if err := bus.Start(); err != nil {
		panic(err)
	}
	cs.SetEventBus(bus)
	cs.timeoutTimer = time.NewTimer(time.Hour) // recover-mode timer: never read by the harness
	n := &VerifNode{CS: cs, ticker: t, bus: bus}
	cs.scheduleRound0(cs.GetRoundState())
	return n
}

// Close releases the event bus goroutine.
func (n *VerifNode) Close() {
	n.bus.Stop()
	n.CS.timeoutTimer.Stop()
}

// Deliver hands one peer message to handleMsg, as receiveRoutine does for peerMsgQueue.
func (n *VerifNode) Deliver(msg ConsensusMessage, peerID string) {
	n.CS.handleMsg(msgInfo{msg, peerID})
}

// InternalLen is the number of own messages waiting in the internal queue.
func (n *VerifNode) InternalLen() int { return len(n.CS.internalMsgQueue) }

// StepInternal handles one message from the internal queue, as receiveRoutine does for
// internalMsgQueue. It returns the message, or nil if the queue was empty.
func (n *VerifNode) StepInternal() ConsensusMessage {
	select {
	case mi := <-n.CS.internalMsgQueue:
		n.Sent = append(n.Sent, mi.Msg)
		n.CS.handleMsg(mi)
		return mi.Msg
	default:
		return nil
	}
}

// Drain handles internal messages until the queue is empty.
func (n *VerifNode) Drain() {
	for n.StepInternal() != nil {
	}
}

// PendingTimeout returns the timeout the ticker currently holds.
func (n *VerifNode) PendingTimeout() (VerifTimeout, bool) {
	if n.ticker.pending == nil {
		return VerifTimeout{}, false
	}
	p := n.ticker.pending
	return VerifTimeout{p.Height, p.Round, p.Step}, true
}

// FireTimeout delivers the pending timeout to handleTimeout, as receiveRoutine does for the tock channel.
func (n *VerifNode) FireTimeout() bool {
	if n.ticker.pending == nil {
		return false
	}
	ti := *n.ticker.pending
	n.ticker.pending = nil
	n.CS.handleTimeout(ti, n.CS.RoundState)
	return true
}

// InjectTimeout delivers an arbitrary timeout value (for robustness checks of stale timeouts).
func (n *VerifNode) InjectTimeout(t VerifTimeout) {
	n.CS.handleTimeout(timeoutInfo{0, t.Height, t.Round, t.Step}, n.CS.RoundState)
}

// TimeoutLog lists every timeout the ticker accepted, in order.
func (n *VerifNode) TimeoutLog() []VerifTimeout { return n.ticker.log }

func blockKey(b *types.Block) string {
	if b == nil {
		return "-"
	}
	return fmt.Sprintf("%x", b.Hash().Bytes()[:6])
}

func partsKey(p *types.PartSet) string {
	if p == nil {
		return "-"
	}
	return fmt.Sprintf("%x:%d:%s", p.Header().Hash.Bytes()[:6], p.Header().Total, p.BitArray().String())
}

// Digest canonically renders every field of the consensus state that the handlers read
// (timestamps and signatures excluded).
func (n *VerifNode) Digest() string { return n.DigestSym(-1) }

// DigestSym: self >= 0 renders the vote sets modulo permutation of the other validators.
func (n *VerifNode) DigestSym(self int) string {
	cs := n.CS
	var b strings.Builder
	fmt.Fprintf(&b, "H%d R%d S%d", cs.Height, cs.Round, cs.Step)
	if cs.Proposal != nil {
		p := cs.Proposal
		fmt.Fprintf(&b, " prop{r%d pol%d %x:%d t%d}", p.Round, p.POLRound, p.BlockPartsHeader.Hash.Bytes()[:6], p.BlockPartsHeader.Total, p.Type)
	} else {
		b.WriteString(" prop{-}")
	}
	fmt.Fprintf(&b, " pb=%s pbp=%s lock=%d:%s:%s valid=%d:%s commitRound=%d", blockKey(cs.ProposalBlock), partsKey(cs.ProposalBlockParts),
		cs.LockedRound, blockKey(cs.LockedBlock), partsKey(cs.LockedBlockParts), cs.ValidRound, blockKey(cs.ValidBlock), cs.CommitRound)
	if cs.Validators != nil && cs.Validators.GetProposer() != nil {
		fmt.Fprintf(&b, " proposer=%x", cs.Validators.GetProposer().Address[:4])
		for _, v := range cs.Validators.Validators {
			fmt.Fprintf(&b, ",%d", v.Accum)
		}
	}
	if self >= 0 {
		fmt.Fprintf(&b, " votes{%s} last{%s}", cs.Votes.VerifDigestSym(self), cs.LastCommit.VerifDigestSym(self))
	} else {
		fmt.Fprintf(&b, " votes{%s} catchup{%s} last{%s}", cs.Votes.VerifDigest(), cs.Votes.VerifCatchupRounds(), cs.LastCommit.VerifDigest())
	}
	if t, ok := n.PendingTimeout(); ok {
		fmt.Fprintf(&b, " to=%s", t)
	}
	fmt.Fprintf(&b, " lastto=%d/%d/%d", n.ticker.last.Height, n.ticker.last.Round, n.ticker.last.Step)
	fmt.Fprintf(&b, " rec=%v/%d", cs.stepRecover, cs.recover)
	fmt.Fprintf(&b, " st=%d:%x", cs.status.LastBlockHeight, cs.status.LastBlockID.Hash.Bytes()[:6])
	// own messages still queued (kinds and ids, in order)
	q := len(cs.internalMsgQueue)
	if q > 0 {
		// peek by cycling the buffered channel (single goroutine: safe)
		b.WriteString(" iq=[")
		for i := 0; i < q; i++ {
			mi := <-cs.internalMsgQueue
			b.WriteString(verifMsgKey(mi.Msg))
			b.WriteString(";")
			cs.internalMsgQueue <- mi
		}
		b.WriteString("]")
	}
	return b.String()
}

func verifMsgKey(m ConsensusMessage) string {
	switch x := m.(type) {
	case *ProposalMessage:
		p := x.Proposal
		return fmt.Sprintf("P(%d/%d pol%d %x)", p.Height, p.Round, p.POLRound, p.BlockPartsHeader.Hash.Bytes()[:6])
	case *BlockPartMessage:
		idx := -999
		if x.Part != nil {
			idx = x.Part.Index
		}
		return fmt.Sprintf("BP(%d/%d #%d)", x.Height, x.Round, idx)
	case *VoteMessage:
		v := x.Vote
		return fmt.Sprintf("V(%d/%d/%d i%d %x)", v.Height, v.Round, v.Type, v.ValidatorIndex, v.BlockID.Hash.Bytes()[:6])
	}
	return fmt.Sprintf("%T", m)
}

// VerifMsgKey renders a consensus message without timestamps/signatures.
func VerifMsgKey(m ConsensusMessage) string { return verifMsgKey(m) }

// VerifStatus returns the node's chain status (read-only use).
func (n *VerifNode) VerifStatus() NewStatus { return n.CS.status }

// VerifBlockExec returns the node's block executor.
func (n *VerifNode) VerifBlockExec() *BlockExecutor { return n.CS.blockExec }
