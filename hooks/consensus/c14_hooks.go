//go:build verif

package consensus

// Add-only test seam for check C14 (see /verif/harness/cmd/c14). Nothing here changes behaviour: the
// functions only make the unexported WAL payload types constructible from the harness and let it pass a
// caller-chosen timestamp to the real encoder (baseWAL.Write stamps time.Now(), whose variable-length
// encoding would make byte counts differ from run to run).

import (
	"time"

	cstypes "github.com/lianxiangcloud/linkchain/consensus/types"
)

// VerifWALMsg wraps a consensus message the way receiveRoutine does before it writes it to the WAL
// (peer == "" for the node's own messages).
func VerifWALMsg(msg ConsensusMessage, peer string) WALMessage {
	return msgInfo{Msg: msg, PeerID: peer}
}

// VerifWALTimeout builds the WAL payload of a fired timeout.
func VerifWALTimeout(d time.Duration, height uint64, round int, step cstypes.RoundStepType) WALMessage {
	return timeoutInfo{Duration: d, Height: height, Round: round, Step: step}
}

// VerifWALKind names the payload type of a (decoded) WAL message.
func VerifWALKind(m WALMessage) string {
	switch x := m.(type) {
	case msgInfo:
		switch x.Msg.(type) {
		case *VoteMessage:
			return "vote"
		case *ProposalMessage:
			return "proposal"
		case *BlockPartMessage:
			return "part"
		}
		return "msg:other"
	case timeoutInfo:
		return "timeout"
	case EndHeightMessage:
		return "endheight"
	}
	return "other"
}

// VerifWALWriteAt is baseWAL.Write / baseWAL.WriteSync with the timestamp supplied by the caller: the same
// encoder object, the same group, the same flush call.
func VerifWALWriteAt(w WAL, t time.Time, msg WALMessage, sync bool) error {
	wal := w.(*baseWAL)
	if err := wal.enc.Encode(&TimedWALMessage{t, msg}); err != nil {
		return err
	}
	if sync {
		return wal.group.Flush()
	}
	return nil
}
