//go:build verif

package state

// Read-only seam for the C05 harness (/verif/harness/cmd/c05). Add-only file, projected into the package through the
// build overlay; nothing here is called by repo code and nothing here writes.

import (
	"fmt"
	"sort"
	"strings"
)

// VerifC05Digest describes everything this StateDB holds that is NOT yet in the database it was opened on: the dirty
// objects (account data and unflushed storage writes), the journal length, refund and log counters. Read caches (clean
// objects, originStorage) are left out: they do not change what the object stands for.
func (s *StateDB) VerifC05Digest() string {
	dirty := map[string]bool{}
	for a := range s.stateObjectsDirty {
		dirty[string(a[:])] = true
	}
	for a := range s.journal.dirties {
		dirty[string(a[:])] = true
	}
	var lines []string
	for a, o := range s.stateObjects {
		if !dirty[string(a[:])] {
			continue
		}
		var toks, slots []string
		for t, v := range o.data.Tokens {
			toks = append(toks, fmt.Sprintf("%x=%s", t, v))
		}
		for k, v := range o.dirtyStorage {
			slots = append(slots, fmt.Sprintf("%x=%x", k, v))
		}
		sort.Strings(toks)
		sort.Strings(slots)
		lines = append(lines, fmt.Sprintf("%x del%v sui%v n%d c%d b%s tok%v root%x code%x dirtycode%v st%v", a, o.deleted, o.suicided, o.data.Nonce, o.data.Credits,
			o.data.Balance, toks, o.data.Root, o.data.CodeHash, o.dirtyCode, slots))
	}
	sort.Strings(lines)
	return fmt.Sprintf("journal%d refund%d logs%d/%d err%v\n%s", s.journal.length(), s.refund, len(s.logs), s.logSize, s.dbErr, strings.Join(lines, "\n"))
}
