//go:build verif

package state

import (
	"bytes"
	"math/big"
	"sort"

	"github.com/lianxiangcloud/linkchain/libs/common"
)

// VerifObject is a read-only view of one in-memory state object (C20 harness). Maps are the live maps of the
// object and must not be modified.
type VerifObject struct {
	Addr     common.Address
	Deleted  bool
	Suicided bool
	Nonce    uint64
	Credits  uint64
	Balance  *big.Int
	Tokens   map[common.Address]*big.Int
	CodeHash []byte
	Dirty    map[common.Hash][]byte // storage written and not yet flushed to the storage trie
	Origin   map[common.Hash][]byte // cache of committed storage values
}

// VerifLoaded returns a view of every state object the StateDB currently holds in memory, sorted by
// address. Everything that is not in this list is, by construction of StateDB, identical to the committed
// state the StateDB was opened at.
func (s *StateDB) VerifLoaded() []VerifObject {
	out := make([]VerifObject, 0, len(s.stateObjects))
	for a, o := range s.stateObjects {
		out = append(out, VerifObject{Addr: a, Deleted: o.deleted, Suicided: o.suicided, Nonce: o.data.Nonce, Credits: o.data.Credits,
			Balance: o.data.Balance, Tokens: o.data.Tokens, CodeHash: o.data.CodeHash, Dirty: o.dirtyStorage, Origin: o.originStorage})
	}
	sort.Slice(out, func(i, j int) bool { return bytes.Compare(out[i].Addr[:], out[j].Addr[:]) < 0 })
	return out
}

// VerifJournalLen returns the number of journal entries (0 right after Finalise).
func (s *StateDB) VerifJournalLen() int { return s.journal.length() }
