//go:build verif

package app

// Seam for the C08 harness (/verif/harness/cmd/c08): runs the signature part of block validation
// (verifySpecTxSign of CheckBlock, verifyTxsOnProcess of processBlock) on a list of transactions against a
// given mempool, on an otherwise empty application object. Add-only file, projected into the package
// through the build overlay; nothing here is called by repo code.

import (
	"github.com/lianxiangcloud/linkchain/libs/common"
	dbm "github.com/lianxiangcloud/linkchain/libs/db"
	"github.com/lianxiangcloud/linkchain/libs/log"
	"github.com/lianxiangcloud/linkchain/types"
)

type verifC08Cross struct{ info *types.SignersInfo }

func (c verifC08Cross) GetTxEntry(hash common.Hash) *types.TxEntry                 { return nil }
func (c verifC08Cross) SaveTxEntry(block *types.Block, txsResult *types.TxsResult) {}
func (c verifC08Cross) DeleteTxEntry(block *types.Block)                           {}
func (c verifC08Cross) AddSpecialTx(txs []types.Tx)                                {}
func (c verifC08Cross) GetMultiSignersInfo(t types.SupportType) *types.SignersInfo { return c.info }
func (c verifC08Cross) NewDbBatch() dbm.Batch                                      { return nil }
func (c verifC08Cross) Sync()                                                      {}

// VerifC08BlockSigCheck returns the results of verifySpecTxSign and verifyTxsOnProcess for a block that
// carries exactly txs. Afterwards the transactions hold whatever sender the node stored in them.
func VerifC08BlockSigCheck(mp types.Mempool, txs types.Txs, signers *types.SignersInfo, vals []*types.Validator) (specErr, procErr error) {
	a := &LinkApplication{logger: log.NewNopLogger(), mempool: mp, crossState: verifC08Cross{signers}, lastVals: vals}
	block := &types.Block{Header: &types.Header{}, Data: &types.Data{Txs: txs}}
	specErr = a.verifySpecTxSign(block)
	procErr = a.verifyTxsOnProcess(block)
	return
}
