//go:build verif

package app

// Read-only seams for the shared fixture /verif/harness/minichain. Add-only file, projected into the
// package through the build overlay; nothing here is called by repo code and nothing here writes.

import (
	"sort"

	"github.com/lianxiangcloud/linkchain/libs/common"
	"github.com/lianxiangcloud/linkchain/state"
	"github.com/lianxiangcloud/linkchain/types"
)

// VerifLastTxsResult returns a copy of the in-memory result of the last committed block (what CreateBlock
// copies into the next header). Unlike BlockStore.LoadTxsResult it still carries the fields that are not
// serialised (UTXO outputs, key images, special transactions).
func (app *LinkApplication) VerifLastTxsResult() types.TxsResult { return app.lastTxsResult }

// VerifProcessed describes what CheckBlock computed for a block that is not (yet) committed.
type VerifProcessed struct {
	Found    bool
	Ok       bool
	Height   uint64
	Result   types.TxsResult
	Receipts types.Receipts
	Logs     []*types.Log
}

// VerifProcessedResult returns the cached outcome of CheckBlock's processBlock for blockHash (the entry
// CommitBlock will commit), or Found=false.
func (app *LinkApplication) VerifProcessedResult(blockHash common.Hash) VerifProcessed {
	app.processLock.Lock()
	defer app.processLock.Unlock()
	p := app.processMap[blockHash]
	if p == nil {
		return VerifProcessed{}
	}
	v := VerifProcessed{Found: true, Ok: p.isOk, Height: p.height, Result: p.txsResult, Logs: p.logs}
	if p.receipts != nil {
		v.Receipts = *p.receipts
	}
	return v
}

// VerifProcessedHashes lists the block hashes that currently have a cached process result (sorted).
func (app *LinkApplication) VerifProcessedHashes() []common.Hash {
	app.processLock.Lock()
	defer app.processLock.Unlock()
	out := make([]common.Hash, 0, len(app.processMap))
	for h := range app.processMap {
		out = append(out, h)
	}
	sort.Slice(out, func(i, j int) bool { return out[i].Hex() < out[j].Hex() })
	return out
}

// VerifStoreState returns the committed state object itself (NOT a copy): read-only use.
func (app *LinkApplication) VerifStoreState() *state.StateDB { return app.storeState }

// VerifCheckTxState returns the mempool-side state object itself (NOT a copy): read-only use.
func (app *LinkApplication) VerifCheckTxState() *state.StateDB { return app.checkTxState }
