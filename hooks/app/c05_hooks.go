//go:build verif

package app

// Seams for the C05 harness (/verif/harness/cmd/c05). Add-only file, projected into the package through the build
// overlay; nothing here is called by repo code.

import (
	"github.com/lianxiangcloud/linkchain/libs/log"
	"github.com/lianxiangcloud/linkchain/state"
	"github.com/lianxiangcloud/linkchain/types"
)

// VerifC05VerifyTxs runs the parallel signature pre-check of block processing (verifyTxsOnProcess) on a block that
// carries exactly txs, against the given mempool, on an otherwise empty application object (enough for plain and
// token transactions; confidential and upgrade transactions would need the application's state). Afterwards the
// transactions hold whatever sender the node stored in them.
func VerifC05VerifyTxs(mp types.Mempool, txs types.Txs) error {
	a := &LinkApplication{logger: log.NewNopLogger(), mempool: mp}
	block := &types.Block{Header: &types.Header{}, Data: &types.Data{Txs: txs}}
	return a.verifyTxsOnProcess(block)
}

// VerifC05Processed is what processBlock computed.
type VerifC05Processed struct {
	Ok       bool
	Result   types.TxsResult
	Receipts types.Receipts
	Logs     []*types.Log
}

// VerifC05ProcessOn runs processBlock (the function PreRunBlock and CheckBlock share) for block on the state object
// st supplied by the harness instead of a copy of the committed state, so that the harness can put a recording
// state.Database under it. st must be opened at the committed root of the application. Nothing of the application
// is modified (processBlock only reads it); the process-wide balance-record journal is reset and refilled as by any
// other execution.
func (app *LinkApplication) VerifC05ProcessOn(block *types.Block, st *state.StateDB, preRun bool) VerifC05Processed {
	pr := &ProcessResult{tmpState: st, height: block.Height}
	app.processBlock(block, pr, preRun)
	out := VerifC05Processed{Ok: pr.isOk, Result: pr.txsResult, Logs: pr.logs}
	if pr.receipts != nil {
		out.Receipts = *pr.receipts
	}
	return out
}
