//go:build verif

package app

// Seams for the C05 harness (/verif/harness/cmd/c05). Add-only file, projected into the package through the build
// overlay; nothing here is called by repo code.

import (
	"encoding/json"
	"fmt"
	"sort"

	"github.com/lianxiangcloud/linkchain/libs/common"
	"github.com/lianxiangcloud/linkchain/libs/log"
	"github.com/lianxiangcloud/linkchain/state"
	"github.com/lianxiangcloud/linkchain/types"
)

// VerifC05VerifyTxs runs the parallel signature pre-check of block processing (verifyTxsOnProcess) on a block that
// carries exactly txs, against the given mempool, on an otherwise empty application object (enough for plain and
// token transactions; confidential and upgrade transactions would need the application's state). Afterwards the
// transactions hold whatever sender the node stored in them.
func VerifC05VerifyTxs(mp types.Mempool, txs types.Txs) error {
	a := &LinkApplication{logger: log.NewNopLogger(), mempool: mp}
	block := &types.Block{Header: &types.Header{}, Data: &types.Data{Txs: txs}}
	return a.verifyTxsOnProcess(block)
}

// VerifC05Processed is what processBlock computed.
type VerifC05Processed struct {
	Ok       bool
	Result   types.TxsResult
	Receipts types.Receipts
	Logs     []*types.Log
}

// VerifC05ProcessOn runs processBlock (the function PreRunBlock and CheckBlock share) for block on the state object
// st supplied by the harness instead of a copy of the committed state, so that the harness can put a recording
// state.Database under it. st must be opened at the committed root of the application. Nothing of the application
// is modified (processBlock only reads it); the process-wide balance-record journal is reset and refilled as by any
// other execution.
func (app *LinkApplication) VerifC05ProcessOn(block *types.Block, st *state.StateDB, preRun bool) VerifC05Processed {
	pr := &ProcessResult{tmpState: st, height: block.Height}
	app.processBlock(block, pr, preRun)
	out := VerifC05Processed{Ok: pr.isOk, Result: pr.txsResult, Logs: pr.logs}
	if pr.receipts != nil {
		out.Receipts = *pr.receipts
	}
	return out
}

// VerifC05KeptDigest describes the objects the application keeps between two block executions and that an execution
// which is NOT committed must leave untouched: the result of the last committed block (including every field of every
// candidate and the candidate index), the coefficients, the validator list learnt from consensus, the current block, and
// the uncommitted content of the committed-state object and of the mempool-side state object. The cache of executed
// proposals (processMap) is not part of it: CheckBlock legitimately adds to it.
func (app *LinkApplication) VerifC05KeptDigest() string {
	app.stateLock.Lock()
	defer app.stateLock.Unlock()
	res, err := json.Marshal(app.lastTxsResult)
	if err != nil {
		return "lastTxsResult does not encode: " + err.Error()
	}
	var idx []string
	for k, v := range app.lastTxsResult.CandidatesMap {
		c, _ := json.Marshal(v)
		idx = append(idx, k+"="+string(c))
	}
	sort.Strings(idx)
	coe, _ := json.Marshal(app.lastCoe)
	var vals []string
	for _, v := range app.lastVals {
		vals = append(vals, fmt.Sprintf("%x/%d/%x", v.Address, v.VotingPower, v.CoinBase))
	}
	cur := common.EmptyHash
	if app.currentBlock != nil {
		cur = app.currentBlock.Hash()
	}
	return fmt.Sprintf("last=%s\nspecial%d outputs%d images%d\nindex=%v\ncoe=%s\nvals@%d=%v\nblock=%x\nstore:%s\nchecktx:%s", res, len(app.lastTxsResult.SpecialTxs()),
		len(app.lastTxsResult.UTXOOutputs()), len(app.lastTxsResult.KeyImages()), idx, coe, app.lastValChanegHeight, vals, cur, app.storeState.VerifC05Digest(), app.checkTxState.VerifC05Digest())
}

// VerifC05InstallCandidates puts the node into the situation "candidates were elected at the last vote height": the
// storage records the candidates system contract would hold (written into the committed-state object, so that the next
// committed block persists them like any other state change) and the candidate list in the result of the last block
// (which every block result inherits and persists). What is NOT executed is the election itself (calculateCandidates at
// heights that are multiples of VotePeriod = 1321, which needs the WASM system contracts deployed by `linkchain init`
// and dereferences the p2p connection manager). To be called on a fresh node before its first block.
func (app *LinkApplication) VerifC05InstallCandidates(cands []*types.CandidateInOrder, contract common.Address, slots map[common.Hash][]byte) {
	keys := make([]common.Hash, 0, len(slots))
	for k := range slots {
		keys = append(keys, k)
	}
	sort.Slice(keys, func(i, j int) bool { return keys[i].Hex() < keys[j].Hex() })
	for _, k := range keys {
		app.storeState.SetState(contract, k, slots[k])
	}
	app.lastTxsResult.Candidates = cands
}
