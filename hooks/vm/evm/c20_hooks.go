//go:build verif

package evm

// VerifDepth returns the current call depth (number of interpreter frames on the stack). Read-only
// accessor used by the C20 harness to attribute StateDB snapshots to call frames.
func (evm *EVM) VerifDepth() int { return evm.depth }

// VerifFees returns copies of the pending fee lists (value-transfer fees charged so far and those already
// marked refundable), for the C20 gas-conservation oracle.
func (evm *EVM) VerifFees() (fees, refundFees []uint64) {
	return append([]uint64{}, evm.fees...), append([]uint64{}, evm.refundFees...)
}
