//go:build verif

package evm

// VerifDepth returns the current call depth (number of interpreter frames on the stack). Read-only
// accessor used by the C20 harness to attribute StateDB snapshots to call frames.
func (evm *EVM) VerifDepth() int { return evm.depth }
