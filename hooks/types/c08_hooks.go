//go:build verif

package types

// Seams for the C08 harness (/verif/harness/cmd/c08). Add-only file, projected into the package through the
// build overlay; nothing here is called by repo code and nothing here changes repo state beyond what the
// wrapped repo functions do themselves.

import (
	"github.com/lianxiangcloud/linkchain/libs/common"
	lktypes "github.com/lianxiangcloud/linkchain/libs/cryptonote/types"
)

// VerifC08SigHash returns the digest that signer would have the sender sign for tx (signer.Hash over the
// transaction's own signFields). ok=false for kinds without a secp256k1 sender signature.
func VerifC08SigHash(tx Tx, signer STDSigner) (h common.Hash, ok bool) {
	switch t := tx.(type) {
	case *Transaction:
		return signer.Hash(&t.data), true
	case *TokenTransaction:
		t.data.Signdata.setSignFieldsFunc(t.signFields)
		return signer.Hash(&t.data.Signdata), true
	case *UTXOTransaction:
		t.Sigs.setSignFieldsFunc(t.signFields)
		return signer.Hash(&t.Sigs), true
	case *ContractUpgradeTx:
		sd := &signdata{}
		sd.setSignFieldsFunc(t.signFields)
		return signer.Hash(sd), true
	}
	return common.EmptyHash, false
}

// The individual verification steps of CheckBasic for a confidential transaction (CheckBasic's own order:
// semantic, commit equality, rct data, range proof, input keys).
func (tx *UTXOTransaction) VerifC08CheckTxSemantic(c TxCensor) error { return tx.checkTxSemantic(c) }
func (tx *UTXOTransaction) VerifC08CheckCommitEqual() error          { return tx.checkCommitEqual() }
func (tx *UTXOTransaction) VerifC08CheckRctSigData() error           { return tx.checkRctSigData() }
func (tx *UTXOTransaction) VerifC08CheckTxInputKeys(c TxCensor) error {
	return tx.checkTxInputKeys(c)
}

// VerifC08VerifyRing runs expandTransactionRctSig + checkRingctSignatures against the given ring members
// (what checkTxInputKeys does after it fetched the ring from the UTXO store).
func (tx *UTXOTransaction) VerifC08VerifyRing(pubkeys [][]lktypes.Ctkey) error {
	tx.expandTransactionRctSig(pubkeys)
	return tx.checkRingctSignatures(pubkeys)
}

// VerifC08PreMlsagHash is the message the ring signatures of tx are made over, for the given ring members.
func (tx *UTXOTransaction) VerifC08RingMessage(pubkeys [][]lktypes.Ctkey) lktypes.Key {
	tx.expandTransactionRctSig(pubkeys)
	return tx.RCTSig.Message
}
