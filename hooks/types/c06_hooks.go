//go:build verif

package types

// Seam for the C06 harness (/verif/harness/cmd/c06). Add-only file, projected into the package through the build
// overlay; nothing here is called by repo code.

import (
	"math/big"
	"sync/atomic"
)

// VerifC06WithGasPrice returns an UNSIGNED copy of tx whose gas price is price. The public constructors pin the gas
// price to 1e11 whatever the caller passes; a peer (or a block proposer) is free to put any integer on the wire. The
// caller signs the result with the transaction's own Sign method. nil for kinds without a gas price field.
func VerifC06WithGasPrice(tx Tx, price *big.Int) Tx {
	switch t := tx.(type) {
	case *Transaction:
		d := t.data
		d.Price = new(big.Int).Set(price)
		d.V, d.R, d.S = new(big.Int), new(big.Int), new(big.Int)
		d.fromValue = atomic.Value{}
		return &Transaction{data: d}
	case *TokenTransaction:
		d := t.data
		d.Price = new(big.Int).Set(price)
		d.Signdata = signdata{V: new(big.Int), R: new(big.Int), S: new(big.Int)}
		return &TokenTransaction{data: d}
	}
	return nil
}
