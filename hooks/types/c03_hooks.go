//go:build verif

package types

// Read-only views of VoteSet internals for the C03 harness (/verif/harness/cmd/c03). Add-only file,
// projected into the package through the build overlay; nothing here is called by repo code.

// VerifC03BlockTally is the tally the vote set keeps for one block id.
type VerifC03BlockTally struct {
	PeerMaj23 bool
	Sum       int64
	Voters    []int // validator indices holding a vote in this block's tally
	Votes     []*Vote
}

// VerifC03Tally is a snapshot of the counters of a VoteSet.
type VerifC03Tally struct {
	Sum     int64
	Maj23   *BlockID
	Votes   []*Vote
	ByBlock map[string]VerifC03BlockTally
	Peers   map[string]BlockID
}

// VerifC03Snapshot returns the current counters of voteSet.
func VerifC03Snapshot(voteSet *VoteSet) VerifC03Tally {
	voteSet.mtx.Lock()
	defer voteSet.mtx.Unlock()
	t := VerifC03Tally{Sum: voteSet.sum, ByBlock: map[string]VerifC03BlockTally{}, Peers: map[string]BlockID{}}
	if voteSet.maj23 != nil {
		id := *voteSet.maj23
		t.Maj23 = &id
	}
	t.Votes = append([]*Vote{}, voteSet.votes...)
	for k, bv := range voteSet.votesByBlock {
		bt := VerifC03BlockTally{PeerMaj23: bv.peerMaj23, Sum: bv.sum, Votes: append([]*Vote{}, bv.votes...)}
		for i, v := range bv.votes {
			if v != nil {
				bt.Voters = append(bt.Voters, i)
			}
		}
		t.ByBlock[k] = bt
	}
	for p, id := range voteSet.peerMaj23s {
		t.Peers[p] = id
	}
	return t
}
