//go:build verif

package types

// Read-only seam for the C05 harness (/verif/harness/cmd/c05). Add-only file, projected into the package through
// the build overlay; nothing here is called by repo code and nothing here writes.

import (
	"github.com/lianxiangcloud/linkchain/libs/common"
)

// VerifC05CachedSender returns the sender currently STORED in the transaction's signature cache (what a later
// From() call would return without recovering the signature), without computing anything. ok=false: nothing is
// cached, or the kind has no secp256k1 sender cache.
func VerifC05CachedSender(tx Tx) (from common.Address, ok bool) {
	var v interface{}
	switch t := tx.(type) {
	case *Transaction:
		v = t.data.from().Load()
	case *TokenTransaction:
		v = t.data.Signdata.fromValue.Load()
	case *UTXOTransaction:
		v = t.Sigs.from().Load()
	default:
		return common.EmptyAddress, false
	}
	if v == nil {
		return common.EmptyAddress, false
	}
	return v.(stdSigCache).from, true
}
