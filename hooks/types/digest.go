//go:build verif

package types

import (
	"fmt"
	"sort"
	"strings"

	"github.com/lianxiangcloud/linkchain/libs/crypto"
)

// VerifDigest is a canonical, timestamp- and signature-free rendering of everything a VoteSet's
// handlers read: used as (part of) a state key by the verification harness. Read-only.
func (voteSet *VoteSet) VerifDigest() string {
	if voteSet == nil {
		return "nil"
	}
	voteSet.mtx.Lock()
	defer voteSet.mtx.Unlock()
	var b strings.Builder
	fmt.Fprintf(&b, "h%d/r%d/t%d sum=%d", voteSet.height, voteSet.round, voteSet.type_, voteSet.sum)
	if voteSet.maj23 != nil {
		fmt.Fprintf(&b, " maj23=%x", voteSet.maj23.Key())
	}
	b.WriteString(" votes=[")
	for i, v := range voteSet.votes {
		if v != nil {
			fmt.Fprintf(&b, "%d:%x,", i, v.BlockID.Key())
		}
	}
	b.WriteString("] byBlock={")
	keys := make([]string, 0, len(voteSet.votesByBlock))
	for k := range voteSet.votesByBlock {
		keys = append(keys, k)
	}
	sort.Strings(keys)
	for _, k := range keys {
		bv := voteSet.votesByBlock[k]
		fmt.Fprintf(&b, "%x:%v:%d:", k, bv.peerMaj23, bv.sum)
		for i, v := range bv.votes {
			if v != nil {
				fmt.Fprintf(&b, "%d,", i)
			}
		}
		b.WriteString(";")
	}
	b.WriteString("} peers={")
	peers := make([]string, 0, len(voteSet.peerMaj23s))
	for p := range voteSet.peerMaj23s {
		peers = append(peers, p)
	}
	sort.Strings(peers)
	for _, p := range peers {
		fmt.Fprintf(&b, "%s:%x;", p, voteSet.peerMaj23s[p].Key())
	}
	b.WriteString("}")
	return b.String()
}

// VerifDigestSym is VerifDigest modulo permutations of the validators other than self: per value only
// the NUMBER of other validators matters (valid only for equal voting powers; the harness uses it for
// symmetry reduction and says so in its evidence).
func (voteSet *VoteSet) VerifDigestSym(self int) string {
	if voteSet == nil {
		return "nil"
	}
	voteSet.mtx.Lock()
	defer voteSet.mtx.Unlock()
	var b strings.Builder
	fmt.Fprintf(&b, "h%d/r%d/t%d sum=%d", voteSet.height, voteSet.round, voteSet.type_, voteSet.sum)
	if voteSet.maj23 != nil {
		fmt.Fprintf(&b, " maj23=%x", voteSet.maj23.Key())
	}
	var others []string
	for i, v := range voteSet.votes {
		if v == nil {
			continue
		}
		if i == self {
			fmt.Fprintf(&b, " self=%x", v.BlockID.Key())
		} else {
			others = append(others, fmt.Sprintf("%x", v.BlockID.Key()))
		}
	}
	sort.Strings(others)
	fmt.Fprintf(&b, " others=%v byBlock={", others)
	keys := make([]string, 0, len(voteSet.votesByBlock))
	for k := range voteSet.votesByBlock {
		keys = append(keys, k)
	}
	sort.Strings(keys)
	for _, k := range keys {
		bv := voteSet.votesByBlock[k]
		n, hasSelf := 0, false
		for i, v := range bv.votes {
			if v != nil {
				if i == self {
					hasSelf = true
				} else {
					n++
				}
			}
		}
		fmt.Fprintf(&b, "%x:%v:%d:%d:%v;", k, bv.peerMaj23, bv.sum, n, hasSelf)
	}
	fmt.Fprintf(&b, "} npeers=%d", len(voteSet.peerMaj23s))
	return b.String()
}

// VerifEmpty reports whether no vote and no peer claim was ever recorded.
func (voteSet *VoteSet) VerifEmpty() bool {
	if voteSet == nil {
		return true
	}
	voteSet.mtx.Lock()
	defer voteSet.mtx.Unlock()
	return voteSet.sum == 0 && len(voteSet.votesByBlock) == 0 && len(voteSet.peerMaj23s) == 0
}

// VerifNewMockPV is NewMockPV with a caller-chosen (fixed) key, so validator order is reproducible.
func VerifNewMockPV(key crypto.PrivKey) *MockPV { return &MockPV{key} }
