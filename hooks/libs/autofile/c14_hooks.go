//go:build verif

package autofile

// Add-only test seam for check C14 (see /verif/harness/cmd/c14). Nothing here changes behaviour.

// VerifTick runs what one tick of Group.processTicks runs (the rotation and retention checks), so that the
// harness decides when a tick happens instead of the 5 s ticker.
func VerifTick(g *Group) {
	g.checkHeadSizeLimit()
	g.checkTotalSizeLimit()
}

// VerifStopTicker stops the group's ticker (the unexported stopTicker, "for testing" in group.go) so that no
// tick happens behind the harness's back.
func VerifStopTicker(g *Group) {
	g.stopTicker()
}

// VerifBuffered returns the number of bytes held in the head buffer (not yet handed to the head file).
func VerifBuffered(g *Group) int {
	g.mtx.Lock()
	defer g.mtx.Unlock()
	return g.headBuf.Buffered()
}

// VerifRelease drops the 40 KiB head buffer of a group that has been closed and will not be used again. (A
// started group is referenced for ever by its processTicks goroutine, which never ends once the ticker is
// stopped; without this a long enumeration keeps every buffer alive.)
func VerifRelease(g *Group) {
	g.mtx.Lock()
	defer g.mtx.Unlock()
	g.headBuf = nil
}
