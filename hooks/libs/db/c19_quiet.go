//go:build verif

package db

import (
	"io"
	"io/ioutil"

	"github.com/dgraph-io/badger"
)

// VerifC19QuietBadger silences badger's package-level default logger. NewBadgerDB takes
// badger.DefaultOptions and offers no way to pass a logger, so every Open/Close would otherwise write a
// dozen INFO lines to stderr. Behaviour of the store is unchanged.
func VerifC19QuietBadger() {
	if l, ok := badger.DefaultOptions("").Logger.(interface{ SetOutput(io.Writer) }); ok {
		l.SetOutput(ioutil.Discard)
	}
}

// VerifC19Release is called by the C19 harness AFTER Close() of a store it will never touch again.
// NewBadgerDB starts `go database.badgerGc()`, a goroutine with a 10-minute ticker that never ends and
// keeps the BadgerDB (and through it the closed badger.DB with its 20 MB memtable arena) reachable for
// ever; a search that opens 10^5 stores runs out of memory. Dropping the references lets the collector
// reclaim the closed store; dbCounts = 0 makes the leaked goroutine's loop body a no-op (it would
// otherwise call RunValueLogGC on a closed store whose directory is gone). No effect on an open store.
func VerifC19Release(d DB) {
	if b, ok := d.(*BadgerDB); ok {
		b.dbCounts = 0
		b.dbs = nil
	}
}
