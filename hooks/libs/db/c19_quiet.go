//go:build verif

package db

import (
	"io"
	"io/ioutil"

	"github.com/dgraph-io/badger"
)

// VerifC19QuietBadger silences badger's package-level default logger. NewBadgerDB takes
// badger.DefaultOptions and offers no way to pass a logger, so every Open/Close would otherwise write a
// dozen INFO lines to stderr. Behaviour of the store is unchanged.
func VerifC19QuietBadger() {
	if l, ok := badger.DefaultOptions("").Logger.(interface{ SetOutput(io.Writer) }); ok {
		l.SetOutput(ioutil.Discard)
	}
}
