//go:build verif

package ser

import "reflect"

// Read-only view of the type registry for the C11 harness (/verif/harness/cmd/c11). Add-only file, projected
// into the package through the build overlay; nothing here is called by repo code.

// VerifC11Concrete describes one concrete type registered with RegisterConcrete.
type VerifC11Concrete struct {
	Type             reflect.Type
	Name             string
	Disfix           [7]byte
	PointerPreferred bool
}

// VerifC11Registry returns the registered concrete types (registration order) and the registered interface
// types (registration order) of the package-level codec.
func VerifC11Registry() (concrete []VerifC11Concrete, ifaces []reflect.Type) {
	cdc.mtx.RLock()
	defer cdc.mtx.RUnlock()
	for _, ci := range cdc.concreteInfos {
		concrete = append(concrete, VerifC11Concrete{Type: ci.Type, Name: ci.Name, Disfix: ci.GetDisfix(), PointerPreferred: ci.PointerPreferred})
	}
	for _, ii := range cdc.interfaceInfos {
		ifaces = append(ifaces, ii.Type)
	}
	return
}
