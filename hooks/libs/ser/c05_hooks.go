//go:build verif

package ser

// Map-iteration-order seam for the C05 harness (/verif/harness/cmd/c05). Add-only file, projected into the package
// through the build overlay. Go cannot be told in which order to iterate a map, and the encoding of
// state.Account.Tokens must not depend on that order: for the C05 build only, tools/gen_c05_ser.py regenerates a
// copy of the CURRENT encode.go in which the map writer obtains its keys through verifC05MapKeys(val) instead of
// val.MapKeys(); everything else of the writer (in particular whether and how it sorts) is the repository's text.
// With no order installed the function is val.MapKeys().

import (
	"reflect"
	"sort"
	"sync/atomic"
)

var (
	verifC05Order atomic.Value // []int: position i of the iteration yields the verifC05Order[i]-th key in byte order
	verifC05Calls int64
)

// VerifC05SetMapOrder installs the iteration order for maps with len(p) entries (nil: native order).
func VerifC05SetMapOrder(p []int) { verifC05Order.Store(append([]int{}, p...)) }

// VerifC05MapOrderCalls counts the calls the map writer made to the seam (0 = this build is not instrumented).
func VerifC05MapOrderCalls() int64 { return atomic.LoadInt64(&verifC05Calls) }

func verifC05MapKeys(val reflect.Value) []reflect.Value {
	atomic.AddInt64(&verifC05Calls, 1)
	keys := val.MapKeys()
	p, _ := verifC05Order.Load().([]int)
	if len(p) == 0 || len(p) != len(keys) {
		return keys
	}
	less := func(a, b reflect.Value) bool {
		for i := 0; i < a.Len() && i < b.Len(); i++ {
			x, y := a.Index(i).Uint(), b.Index(i).Uint()
			if x != y {
				return x < y
			}
		}
		return a.Len() < b.Len()
	}
	sort.Slice(keys, func(i, j int) bool { return less(keys[i], keys[j]) })
	out := make([]reflect.Value, len(keys))
	for i, pi := range p {
		out[i] = keys[pi]
	}
	return out
}
