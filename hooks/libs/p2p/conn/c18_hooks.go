//go:build verif

package conn

// Add-only hooks for check C18 (peer connections: intact, ordered, authenticated).
// Nothing here copies the body of a repository function: every entry point CALLS the unexported function
// the production goroutines call, so that the harness can step the packetisation core one action at a time.

import (
	"io"

	"github.com/golang/snappy"
	cmn "github.com/lianxiangcloud/linkchain/libs/common"
	"github.com/lianxiangcloud/linkchain/libs/crypto"
	"github.com/lianxiangcloud/linkchain/libs/ser"
)

// VerifC18FrameMode returns the compiled-in leading byte parts of SecretConnection frames.
func VerifC18FrameMode() (version, typ byte) { return leadingVersion, leadingType }

// VerifC18FrameConsts returns (headerSize, dataMaxSize, frameCapacity).
func VerifC18FrameConsts() (int, int, int) { return headerSize, dataMaxSize, frameCapacity }

// VerifC18EncodeAuthSig encodes the (unexported) handshake message exactly as shareAuthSignature does,
// for the harness's scripted (attacker) peer.
func VerifC18EncodeAuthSig(key crypto.PubKey, sig crypto.Signature) ([]byte, error) {
	return ser.EncodeToBytesWithType(authSigMessage{key, sig})
}

// VerifC18SnappyEncode / VerifC18SnappyDecode give the harness's scripted peer the block codec the frames
// use (the harness module must not add module requirements of its own).
func VerifC18SnappyEncode(b []byte) []byte { return snappy.Encode(nil, b) }

func VerifC18SnappyDecode(b []byte) ([]byte, error) { return snappy.Decode(nil, b) }

// VerifC18CloneFresh returns a new SecretConnection over conn whose state is a deep copy of sc's
// post-handshake state (sc must be freshly handshaken: nothing read or written yet). The stream part of
// the check needs a fresh instance per execution (10^5..10^6 executions); the state cloned here was
// produced by the real MakeSecretConnection, run once per process on both sides.
func VerifC18CloneFresh(sc *SecretConnection, conn io.ReadWriteCloser) *SecretConnection {
	if len(sc.recvBuffer) != 0 {
		panic("VerifC18CloneFresh: template connection was used")
	}
	rn, sn, ss := *sc.recvNonce, *sc.sendNonce, *sc.shrSecret
	return &SecretConnection{conn: conn, recvNonce: &rn, sendNonce: &sn, shrSecret: &ss, remPubKey: sc.remPubKey}
}

// VerifC18PrepareSender makes an UNSTARTED MConnection steppable: sendPacketMsg calls c.flushTimer.Set(),
// and the timer is created by OnStart together with the goroutines the stepped sender must not have. The
// timer is created with the configured throttle (the harness configures hours, so it never fires).
func VerifC18PrepareSender(c *MConnection) {
	c.flushTimer = cmn.NewThrottleTimer("flush", c.config.FlushThrottle)
}

// VerifC18ReleaseSender stops the timer created by VerifC18PrepareSender. If the connection already stopped
// itself (stopForError after a failed write) the timer is stopped already; stopping it twice panics.
func VerifC18ReleaseSender(c *MConnection) {
	defer func() { recover() }()
	c.flushTimer.Stop()
}

// VerifC18Enqueue queues a message on a channel the way TrySend does after its IsRunning/len checks
// (the stepped sender is not running, and waking sendRoutine is not wanted).
func VerifC18Enqueue(c *MConnection, chID byte, msg []byte) bool {
	ch, ok := c.channelsIdx[chID]
	if !ok {
		return false
	}
	return ch.trySendBytes(msg)
}

// VerifC18SendPacketMsg performs one sender step; true = nothing left to send.
func VerifC18SendPacketMsg(c *MConnection) bool { return c.sendPacketMsg() }

// VerifC18SendSome performs the batch step of sendRoutine's `case <-c.send`.
func VerifC18SendSome(c *MConnection) bool { return c.sendSomePacketMsgs() }

// VerifC18Flush performs sendRoutine's flush action.
func VerifC18Flush(c *MConnection) { c.flush() }

// VerifC18UpdateStats performs sendRoutine's `case <-c.chStatsTimer.Chan()` action.
func VerifC18UpdateStats(c *MConnection) {
	for _, channel := range c.channels {
		channel.updateStats()
	}
}

// VerifC18ChanState is the packetisation state of one channel (read-only snapshot).
type VerifC18ChanState struct {
	ID           byte
	Queued       int   // messages in sendQueue
	QueueSize    int32 // the sendQueueSize counter
	Sending      int   // bytes of the message being cut into packets
	RecentlySent int64
	Recving      int // bytes of a partially reassembled incoming message
}

// VerifC18ChanStates snapshots all channels. The caller must make sure no routine of c is running
// concurrently (stepped sender, or receiver blocked in Read).
func VerifC18ChanStates(c *MConnection) []VerifC18ChanState {
	out := make([]VerifC18ChanState, len(c.channels))
	for i, ch := range c.channels {
		out[i] = VerifC18ChanState{ID: ch.desc.ID, Queued: len(ch.sendQueue), QueueSize: ch.sendQueueSize,
			Sending: len(ch.sending), RecentlySent: ch.recentlySent, Recving: len(ch.recving)}
	}
	return out
}

// VerifC18Buffered returns the number of bytes waiting in the connection's write buffer.
func VerifC18Buffered(c *MConnection) int { return c.bufConnWriter.Buffered() }

// VerifC18MaxPacketMsgSize returns the receiver's per-packet decode limit.
func VerifC18MaxPacketMsgSize(c *MConnection) int { return c._maxPacketMsgSize }
