//go:build verif

package p2p

// Add-only hooks for check C18 (peer connections are authenticated): run the production inbound-peer
// path (secret handshake, NodeInfo handshake, the Switch's admission checks) on a harness connection.

import (
	"net"

	"github.com/lianxiangcloud/linkchain/config"
	cmn "github.com/lianxiangcloud/linkchain/libs/common"
	"github.com/lianxiangcloud/linkchain/libs/crypto"
	"github.com/lianxiangcloud/linkchain/libs/p2p/conn"
)

// VerifC18Switch builds the part of a Switch that addInboundPeerWithConfig/addPeer use: no listener, no
// discovery table, no connection manager, not started (an admitted peer is added to the peer set but its
// MConnection is not started). Field values are those NewP2pManager sets.
func VerifC18Switch(key crypto.PrivKey, info NodeInfo, cfg *config.P2PConfig) *Switch {
	sw := &Switch{
		config:       cfg,
		reactors:     make(map[string]Reactor),
		chDescs:      make([]*conn.ChannelDescriptor, 0),
		reactorsByCh: make(map[byte]Reactor),
		peers:        NewPeerSet(),
		dialing:      cmn.NewCMap(),
		blackListMap: make(map[string]bool),
		inboundMap:   make(map[string]int),
	}
	sw.mConfig = conn.DefaultMConnConfig()
	sw.BaseService = *cmn.NewBaseService(nil, "P2P Switch", sw)
	sw.nodeKey = key
	sw.SetNodeInfo(info)
	return sw
}

// VerifC18AddInbound is what listenerRoutine does with an accepted connection.
func VerifC18AddInbound(sw *Switch, c net.Conn) error {
	return sw.addInboundPeerWithConfig(c, sw.config)
}

// VerifC18PeerKeys returns the public keys of the peers the Switch admitted (as recorded in their NodeInfo,
// which is what peer.ID() is derived from).
func VerifC18PeerKeys(sw *Switch) []crypto.PubKeyEd25519 {
	var out []crypto.PubKeyEd25519
	for _, p := range sw.peers.List() {
		out = append(out, p.NodeInfo().PubKey)
	}
	return out
}
