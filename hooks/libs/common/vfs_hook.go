//go:build verif

package common

// File-system redirect used by the crash-enumeration checks (engine E3 "crashx", first user: C04).
//
// Repo code never calls anything in this file by itself. tools/gen_*_vfs.py generate instrumented COPIES of a
// few repo functions (cmn.WriteFileAtomic, types.LoadFilePV, ...) in which `os.OpenFile`, `os.Rename`,
// `os.Remove`, `ioutil.ReadFile`, ... are replaced by the Verif* functions below; the copies are compiled
// instead of the originals through the build overlay (only under the `verif` build tag).
//
// Transparency: every Verif* function passes straight through to package os / ioutil unless the path it is
// given lies under VerifVFSRoot ("/.verif-vfs/<mount>/..."). Such a path is an EXPLICIT HANDLE: it routes the
// call to the file system object registered under <mount> with VerifMount. No global switch and no
// per-goroutine state exist, so parallel executions (one mount per worker) cannot interfere, and a binary
// that never mounts anything behaves exactly like one built from the unmodified files. A path under
// VerifVFSRoot whose mount does not exist fails with ENOENT; it never reaches the real disk.
//
// The implementation of the in-memory, logging file system lives in /verif/harness/vfs (module verif);
// this file only defines the two interfaces it implements and the dispatch. Std-lib only.

import (
	"io"
	"io/ioutil"
	"os"
	"strings"
	"sync"
	"sync/atomic"
	"syscall"
)

// VerifVFSRoot is the path prefix that selects a mounted shim file system.
const VerifVFSRoot = "/.verif-vfs/"

// VerifFile is the part of *os.File the redirected code may use. *os.File implements it, so the
// pass-through path hands out the real file unchanged.
type VerifFile interface {
	io.Reader
	io.ReaderAt
	io.Writer
	io.WriterAt
	io.Seeker
	io.Closer
	WriteString(s string) (n int, err error)
	Name() string
	Stat() (os.FileInfo, error)
	Sync() error
	Truncate(size int64) error
	Chmod(mode os.FileMode) error
}

// VerifFileSystem is implemented by the shim (verif/vfs.FS). Names are the full paths the repo code used
// (including VerifVFSRoot and the mount name).
type VerifFileSystem interface {
	OpenFile(name string, flag int, perm os.FileMode) (VerifFile, error)
	Rename(oldpath, newpath string) error
	Remove(name string) error
	ReadFile(name string) ([]byte, error)
	WriteFile(name string, data []byte, perm os.FileMode) error
	TempFile(dir, pattern string) (VerifFile, error)
	Stat(name string) (os.FileInfo, error)
	MkdirAll(path string, perm os.FileMode) error
	Truncate(name string, size int64) error
	Chmod(name string, mode os.FileMode) error
}

var (
	verifMounts     sync.Map // mount name -> VerifFileSystem
	verifMountCount int32
)

// VerifMount registers fs under name (replacing an earlier mount of that name) and returns the directory
// path that now routes to it ("/.verif-vfs/<name>", no trailing slash). name must not contain '/'.
func VerifMount(name string, fs VerifFileSystem) string {
	if name == "" || strings.ContainsRune(name, '/') {
		panic("VerifMount: bad mount name " + name)
	}
	if _, loaded := verifMounts.Load(name); !loaded {
		atomic.AddInt32(&verifMountCount, 1)
	}
	verifMounts.Store(name, fs)
	return VerifVFSRoot + name
}

// VerifUnmount removes a mount.
func VerifUnmount(name string) {
	if _, loaded := verifMounts.Load(name); loaded {
		verifMounts.Delete(name)
		atomic.AddInt32(&verifMountCount, -1)
	}
}

// VerifMounted reports whether any shim file system is mounted.
func VerifMounted() bool { return atomic.LoadInt32(&verifMountCount) > 0 }

// verifRoute returns (fs, true) if path is a shim path. fs is nil if the mount does not exist.
func verifRoute(path string) (VerifFileSystem, bool) {
	if len(path) < len(VerifVFSRoot) || path[:len(VerifVFSRoot)] != VerifVFSRoot {
		return nil, false
	}
	rest := path[len(VerifVFSRoot):]
	if i := strings.IndexByte(rest, '/'); i >= 0 {
		rest = rest[:i]
	}
	if v, ok := verifMounts.Load(rest); ok {
		return v.(VerifFileSystem), true
	}
	return nil, true
}

func verifNoMount(op, path string) error {
	return &os.PathError{Op: op, Path: path, Err: syscall.ENOENT}
}

// VerifOpenFile is os.OpenFile.
func VerifOpenFile(name string, flag int, perm os.FileMode) (VerifFile, error) {
	if fs, shim := verifRoute(name); shim {
		if fs == nil {
			return nil, verifNoMount("open", name)
		}
		return fs.OpenFile(name, flag, perm)
	}
	// the (typed nil, err) pair of os.OpenFile is handed on unchanged
	f, err := os.OpenFile(name, flag, perm)
	return f, err
}

// VerifOpen is os.Open.
func VerifOpen(name string) (VerifFile, error) { return VerifOpenFile(name, os.O_RDONLY, 0) }

// VerifCreate is os.Create.
func VerifCreate(name string) (VerifFile, error) {
	return VerifOpenFile(name, os.O_RDWR|os.O_CREATE|os.O_TRUNC, 0666)
}

// VerifRename is os.Rename. Both paths must be on the same side (same mount, or both real).
func VerifRename(oldpath, newpath string) error {
	fo, so := verifRoute(oldpath)
	fn, sn := verifRoute(newpath)
	if !so && !sn {
		return os.Rename(oldpath, newpath)
	}
	if fo == nil || fn == nil || fo != fn {
		return &os.LinkError{Op: "rename", Old: oldpath, New: newpath, Err: syscall.EXDEV}
	}
	return fo.Rename(oldpath, newpath)
}

// VerifRemove is os.Remove.
func VerifRemove(name string) error {
	if fs, shim := verifRoute(name); shim {
		if fs == nil {
			return verifNoMount("remove", name)
		}
		return fs.Remove(name)
	}
	return os.Remove(name)
}

// VerifReadFile is ioutil.ReadFile / os.ReadFile.
func VerifReadFile(name string) ([]byte, error) {
	if fs, shim := verifRoute(name); shim {
		if fs == nil {
			return nil, verifNoMount("open", name)
		}
		return fs.ReadFile(name)
	}
	return ioutil.ReadFile(name)
}

// VerifWriteFile is ioutil.WriteFile / os.WriteFile.
func VerifWriteFile(name string, data []byte, perm os.FileMode) error {
	if fs, shim := verifRoute(name); shim {
		if fs == nil {
			return verifNoMount("open", name)
		}
		return fs.WriteFile(name, data, perm)
	}
	return ioutil.WriteFile(name, data, perm)
}

// VerifTempFile is ioutil.TempFile / os.CreateTemp (dir == "" always means the real temp directory).
func VerifTempFile(dir, pattern string) (VerifFile, error) {
	if fs, shim := verifRoute(dir); shim {
		if fs == nil {
			return nil, verifNoMount("open", dir)
		}
		return fs.TempFile(dir, pattern)
	}
	f, err := ioutil.TempFile(dir, pattern)
	return f, err
}

// VerifStat is os.Stat (and os.Lstat: the shim has no symbolic links).
func VerifStat(name string) (os.FileInfo, error) {
	if fs, shim := verifRoute(name); shim {
		if fs == nil {
			return nil, verifNoMount("stat", name)
		}
		return fs.Stat(name)
	}
	return os.Stat(name)
}

// VerifMkdirAll is os.MkdirAll.
func VerifMkdirAll(path string, perm os.FileMode) error {
	if fs, shim := verifRoute(path); shim {
		if fs == nil {
			return verifNoMount("mkdir", path)
		}
		return fs.MkdirAll(path, perm)
	}
	return os.MkdirAll(path, perm)
}

// VerifTruncate is os.Truncate.
func VerifTruncate(name string, size int64) error {
	if fs, shim := verifRoute(name); shim {
		if fs == nil {
			return verifNoMount("truncate", name)
		}
		return fs.Truncate(name, size)
	}
	return os.Truncate(name, size)
}

// VerifChmod is os.Chmod.
func VerifChmod(name string, mode os.FileMode) error {
	if fs, shim := verifRoute(name); shim {
		if fs == nil {
			return verifNoMount("chmod", name)
		}
		return fs.Chmod(name, mode)
	}
	return os.Chmod(name, mode)
}

// VerifExitPanic is the panic value VerifExit raises instead of terminating the process.
type VerifExitPanic struct{ Msg string }

func (e VerifExitPanic) Error() string { return "cmn.Exit: " + e.Msg }

// VerifExit replaces cmn.Exit inside redirected functions (types.LoadFilePV calls cmn.Exit when the key
// file is missing or unreadable, which would print, sleep 2.3 s and os.Exit(1) the enumerating process).
// While at least one shim file system is mounted it panics with VerifExitPanic; otherwise it is cmn.Exit.
func VerifExit(s string) {
	if VerifMounted() {
		panic(VerifExitPanic{Msg: s})
	}
	Exit(s)
}
