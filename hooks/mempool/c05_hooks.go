//go:build verif

package mempool

// Seam for the C05 harness (/verif/harness/cmd/c05). Add-only file, projected into the package through the build
// overlay; nothing here is called by repo code.

import (
	"github.com/lianxiangcloud/linkchain/libs/common"
	"github.com/lianxiangcloud/linkchain/types"
)

// VerifC05CacheEntry is one entry of the transaction cache: Checked=false is the state between the cache Put at the
// top of AddTx and the end of the basic check (CheckAndGet must not hand such an entry out).
type VerifC05CacheEntry struct {
	Tx      types.Tx
	Checked bool
}

// VerifC05CacheOnlyMempool returns a Mempool of which ONLY the transaction cache exists: the same cache type
// NewMempool installs (txHeapManager over 4 txHeaps), without pre-allocations and expiry goroutines, filled through
// the cache's own Put with the entries AddTx would have left there. It serves GetTxFromCache (the only Mempool
// method the block signature pre-check calls) and nothing else. One instance per explored schedule: the scheduler
// models the cache's locks per instance.
func VerifC05CacheOnlyMempool(entries []VerifC05CacheEntry) *Mempool {
	h := make([]*txHeap, 0, 4)
	for i := 0; i < 4; i++ {
		items := make([]expireHash, 0, 4)
		h = append(h, &txHeap{items: (*expireHashHeap)(&items), txMap: make(map[common.Hash]types.Tx, 4), expire: 30})
	}
	m := &txHeapManager{h: h}
	for _, e := range entries {
		m.Put(&mempoolCachedTx{Tx: e.Tx, BasicChecked: e.Checked})
	}
	return &Mempool{cache: m}
}
