//go:build verif

package mempool

// Read-only seams for check C15 (/verif/harness/cmd/c15). Add-only file, projected into the package through the
// build overlay; nothing here is called by repo code and nothing here writes to the pool (in particular the
// future queues are read from txSortedMap.items directly, NOT through Flatten(), which would populate the
// sorted-order cache that Forward/Cap then maintain).

import (
	"sort"
	"time"

	"github.com/lianxiangcloud/linkchain/libs/clist"
	"github.com/lianxiangcloud/linkchain/libs/common"
	lktypes "github.com/lianxiangcloud/linkchain/libs/cryptonote/types"
	"github.com/lianxiangcloud/linkchain/types"
)

// VerifC15CacheEntry is one entry of the transaction cache.
type VerifC15CacheEntry struct {
	Hash         common.Hash
	BasicChecked bool
	DelayDeleted bool // the hash is on the delayed-delete heap (the transaction was committed)
}

// VerifC15PoolView is a snapshot of every list of the pool.
type VerifC15PoolView struct {
	Good, Spec, UTXO types.Txs
	Future           map[common.Address]types.Txs // per sender, ascending nonce
	FutureCount      int                          // the counter the pool keeps
	KeyImages        []lktypes.Key                // sorted
	Cache            []VerifC15CacheEntry         // sorted by hash; nil when the cache is not a txHeapManager
	Height           uint64
	Size, FutureSize int
	UTXOSize         int
	MaxReapSize      int
	AccountQueue     int
}

func verifC15List(l *clist.CList) types.Txs {
	var out types.Txs
	for e := l.Front(); e != nil; e = e.Next() {
		out = append(out, e.Value.(*mempoolTx).tx)
	}
	return out
}

// VerifC15View returns the content of the pool. It takes no pool lock: call it when no other goroutine drives the pool.
func VerifC15View(mem *Mempool) VerifC15PoolView {
	v := VerifC15PoolView{Good: verifC15List(mem.goodTxs), Spec: verifC15List(mem.specGoodTxs), UTXO: verifC15List(mem.utxoTxs),
		Future: map[common.Address]types.Txs{}, FutureCount: mem.futureTxsCount, Height: mem.height,
		Size: mem.config.Size, FutureSize: mem.config.FutureSize, UTXOSize: mem.config.UTXOSize, MaxReapSize: mem.config.MaxReapSize,
		AccountQueue: mem.config.AccountQueue}
	for a, l := range mem.futureTxs {
		nonces := make([]uint64, 0, len(l.txs.items))
		for n := range l.txs.items {
			nonces = append(nonces, n)
		}
		sort.Slice(nonces, func(i, j int) bool { return nonces[i] < nonces[j] })
		for _, n := range nonces {
			v.Future[a] = append(v.Future[a], l.txs.items[n])
		}
	}
	mem.kImageMtx.RLock()
	for k := range mem.kImageCache {
		v.KeyImages = append(v.KeyImages, k)
	}
	mem.kImageMtx.RUnlock()
	sort.Slice(v.KeyImages, func(i, j int) bool { return string(v.KeyImages[i][:]) < string(v.KeyImages[j][:]) })
	if m, ok := mem.cache.(*txHeapManager); ok {
		v.Cache = []VerifC15CacheEntry{}
		for _, h := range m.h {
			h.RLock()
			delayed := map[common.Hash]bool{}
			for _, it := range *h.items {
				delayed[it.hash] = true
			}
			for k, tx := range h.txMap {
				e := VerifC15CacheEntry{Hash: k, DelayDeleted: delayed[k]}
				if c, ok := tx.(*mempoolCachedTx); ok {
					e.BasicChecked = c.BasicChecked
				}
				v.Cache = append(v.Cache, e)
			}
			h.RUnlock()
		}
		sort.Slice(v.Cache, func(i, j int) bool { return string(v.Cache[i].Hash[:]) < string(v.Cache[j].Hash[:]) })
	}
	return v
}

// ---- map iteration order of promoteExecutables(nil) -------------------------------------------------------------
//
// tools/gen_c15_maporder.py appends `accounts = verifC15Order(accounts)` after the loop that collects the senders of
// mem.futureTxs in Go's randomised map order (C15 builds only). The harness installs a chooser and enumerates the orders.

// VerifC15Order, when set, receives the senders in map order and returns them in the order to process (a permutation).
var VerifC15Order func(mem *Mempool, accounts []common.Address) []common.Address

// VerifC15OrderCalls counts calls of the seam (0 after a commit with queued senders: the build does not contain the seam).
var VerifC15OrderCalls int

func verifC15Order(mem *Mempool, accounts []common.Address) []common.Address {
	VerifC15OrderCalls++
	if VerifC15Order != nil {
		return VerifC15Order(mem, accounts)
	}
	return accounts
}

// VerifC15SeamActive reports whether this build contains the seam: it runs promoteExecutables(nil) on mem (call it on
// a pool whose future queues are empty: nothing to promote, no effect) and looks whether the seam was reached.
func VerifC15SeamActive(mem *Mempool) bool {
	before := VerifC15OrderCalls
	mem.proxyMtx.Lock()
	mem.promoteExecutables(nil)
	mem.proxyMtx.Unlock()
	return VerifC15OrderCalls > before
}

// ---- clock seam: the age of pool entries is an input of the environment ---------------------------------------------
//
// The pool reads the wall clock in two places of Update: filterTxs drops an entry of goodTxs / utxoTxs / specGoodTxs whose
// goodTxBeats record is GoodTxDropTime old, recheckSpecTxs drops a special transaction whose mempoolTx.addtime is
// config.Lifetime old. (The third one, the eviction of future queues by mem.beats, runs only on the ticker of loop() and is
// not reachable from here.) The harness never sleeps: it moves these records into the past.

// VerifC15Age shifts the admission records of the entry with this hash back by d. false: no list holds it.
func VerifC15Age(mem *Mempool, hash common.Hash, d time.Duration) bool {
	mem.proxyMtx.Lock()
	defer mem.proxyMtx.Unlock()
	for _, l := range []*clist.CList{mem.goodTxs, mem.utxoTxs, mem.specGoodTxs} {
		for e := l.Front(); e != nil; e = e.Next() {
			m := e.Value.(*mempoolTx)
			if m.tx.Hash() != hash {
				continue
			}
			if t, ok := mem.goodTxBeats.Load(hash); ok {
				mem.goodTxBeats.Store(hash, t.(time.Time).Add(-d))
			}
			if m.addtime != nil {
				t := m.addtime.Add(-d)
				m.addtime = &t
			}
			return true
		}
	}
	return false
}

// VerifC15AgeInfo: how old the pool believes an entry is.
type VerifC15AgeInfo struct {
	Beat    time.Duration // according to goodTxBeats (what filterTxs compares with GoodTxDropTime)
	Add     time.Duration // according to mempoolTx.addtime (what recheckSpecTxs compares with config.Lifetime)
	HasBeat bool
	HasAdd  bool
}

// VerifC15Ages returns the age records of every entry of the three lists.
func VerifC15Ages(mem *Mempool) map[common.Hash]VerifC15AgeInfo {
	out := map[common.Hash]VerifC15AgeInfo{}
	now := time.Now()
	for _, l := range []*clist.CList{mem.goodTxs, mem.utxoTxs, mem.specGoodTxs} {
		for e := l.Front(); e != nil; e = e.Next() {
			m := e.Value.(*mempoolTx)
			var a VerifC15AgeInfo
			if t, ok := mem.goodTxBeats.Load(m.tx.Hash()); ok {
				a.Beat, a.HasBeat = now.Sub(t.(time.Time)), true
			}
			if m.addtime != nil {
				a.Add, a.HasAdd = now.Sub(*m.addtime), true
			}
			out[m.tx.Hash()] = a
		}
	}
	return out
}

// VerifC15Lifetime is config.Lifetime of this pool.
func VerifC15Lifetime(mem *Mempool) time.Duration { return mem.config.Lifetime }
