//go:build verif

package mempool

// Read-only seams for check C15 (/verif/harness/cmd/c15). Add-only file, projected into the package through the
// build overlay; nothing here is called by repo code and nothing here writes to the pool (in particular the
// future queues are read from txSortedMap.items directly, NOT through Flatten(), which would populate the
// sorted-order cache that Forward/Cap then maintain).

import (
	"sort"

	"github.com/lianxiangcloud/linkchain/libs/clist"
	"github.com/lianxiangcloud/linkchain/libs/common"
	lktypes "github.com/lianxiangcloud/linkchain/libs/cryptonote/types"
	"github.com/lianxiangcloud/linkchain/types"
)

// VerifC15CacheEntry is one entry of the transaction cache.
type VerifC15CacheEntry struct {
	Hash         common.Hash
	BasicChecked bool
	DelayDeleted bool // the hash is on the delayed-delete heap (the transaction was committed)
}

// VerifC15PoolView is a snapshot of every list of the pool.
type VerifC15PoolView struct {
	Good, Spec, UTXO types.Txs
	Future           map[common.Address]types.Txs // per sender, ascending nonce
	FutureCount      int                          // the counter the pool keeps
	KeyImages        []lktypes.Key                // sorted
	Cache            []VerifC15CacheEntry         // sorted by hash; nil when the cache is not a txHeapManager
	Height           uint64
	Size, FutureSize int
	UTXOSize         int
	MaxReapSize      int
	AccountQueue     int
}

func verifC15List(l *clist.CList) types.Txs {
	var out types.Txs
	for e := l.Front(); e != nil; e = e.Next() {
		out = append(out, e.Value.(*mempoolTx).tx)
	}
	return out
}

// VerifC15View returns the content of the pool. It takes no pool lock: call it when no other goroutine drives the pool.
func VerifC15View(mem *Mempool) VerifC15PoolView {
	v := VerifC15PoolView{Good: verifC15List(mem.goodTxs), Spec: verifC15List(mem.specGoodTxs), UTXO: verifC15List(mem.utxoTxs),
		Future: map[common.Address]types.Txs{}, FutureCount: mem.futureTxsCount, Height: mem.height,
		Size: mem.config.Size, FutureSize: mem.config.FutureSize, UTXOSize: mem.config.UTXOSize, MaxReapSize: mem.config.MaxReapSize,
		AccountQueue: mem.config.AccountQueue}
	for a, l := range mem.futureTxs {
		nonces := make([]uint64, 0, len(l.txs.items))
		for n := range l.txs.items {
			nonces = append(nonces, n)
		}
		sort.Slice(nonces, func(i, j int) bool { return nonces[i] < nonces[j] })
		for _, n := range nonces {
			v.Future[a] = append(v.Future[a], l.txs.items[n])
		}
	}
	mem.kImageMtx.RLock()
	for k := range mem.kImageCache {
		v.KeyImages = append(v.KeyImages, k)
	}
	mem.kImageMtx.RUnlock()
	sort.Slice(v.KeyImages, func(i, j int) bool { return string(v.KeyImages[i][:]) < string(v.KeyImages[j][:]) })
	if m, ok := mem.cache.(*txHeapManager); ok {
		v.Cache = []VerifC15CacheEntry{}
		for _, h := range m.h {
			h.RLock()
			delayed := map[common.Hash]bool{}
			for _, it := range *h.items {
				delayed[it.hash] = true
			}
			for k, tx := range h.txMap {
				e := VerifC15CacheEntry{Hash: k, DelayDeleted: delayed[k]}
				if c, ok := tx.(*mempoolCachedTx); ok {
					e.BasicChecked = c.BasicChecked
				}
				v.Cache = append(v.Cache, e)
			}
			h.RUnlock()
		}
		sort.Slice(v.Cache, func(i, j int) bool { return string(v.Cache[i].Hash[:]) < string(v.Cache[j].Hash[:]) })
	}
	return v
}

// ---- map iteration order of promoteExecutables(nil) -------------------------------------------------------------
//
// tools/gen_c15_maporder.py appends `accounts = verifC15Order(accounts)` after the loop that collects the senders of
// mem.futureTxs in Go's randomised map order (C15 builds only). The harness installs a chooser and enumerates the orders.

// VerifC15Order, when set, receives the senders in map order and returns them in the order to process (a permutation).
var VerifC15Order func(mem *Mempool, accounts []common.Address) []common.Address

// VerifC15OrderCalls counts calls of the seam (0 after a commit with queued senders: the build does not contain the seam).
var VerifC15OrderCalls int

func verifC15Order(mem *Mempool, accounts []common.Address) []common.Address {
	VerifC15OrderCalls++
	if VerifC15Order != nil {
		return VerifC15Order(mem, accounts)
	}
	return accounts
}

// VerifC15SeamActive reports whether this build contains the seam: it runs promoteExecutables(nil) on mem (call it on
// a pool whose future queues are empty: nothing to promote, no effect) and looks whether the seam was reached.
func VerifC15SeamActive(mem *Mempool) bool {
	before := VerifC15OrderCalls
	mem.proxyMtx.Lock()
	mem.promoteExecutables(nil)
	mem.proxyMtx.Unlock()
	return VerifC15OrderCalls > before
}
