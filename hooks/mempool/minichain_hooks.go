//go:build verif

package mempool

// Seams for the shared fixture /verif/harness/minichain. Add-only file, projected into the package through
// the build overlay; nothing here is called by repo code.

import (
	"sort"

	"github.com/lianxiangcloud/linkchain/libs/clist"
	"github.com/lianxiangcloud/linkchain/libs/common"
	"github.com/lianxiangcloud/linkchain/types"
)

// VerifMinichainLightCache replaces the transaction cache of mem by the SAME cache type NewMempool installs
// (txHeapManager over 4 txHeaps, 30 s delayed delete) but built without the two things that make a
// production cache unusable in a harness that creates thousands of mempools:
//   - every txHeap pre-allocates a 100000-entry map and a 100000-entry heap (tens of MB per mempool);
//   - every txHeap starts a goroutine (txHeap.loop) that can never be stopped.
//
// Without the loop, DelayDelete'd hashes (transactions removed because they were committed) stay in the
// cache for ever instead of 30 s. A harness run is far shorter than 30 s, so this is the behaviour of the
// real cache inside the window that a harness observes; wall-clock expiry is outside every bound.
func VerifMinichainLightCache(mem *Mempool) {
	h := make([]*txHeap, 0, 4)
	for i := 0; i < 4; i++ {
		items := make([]expireHash, 0, 8)
		h = append(h, &txHeap{items: (*expireHashHeap)(&items), txMap: make(map[common.Hash]types.Tx, 8), expire: 30})
	}
	mem.cache = &txHeapManager{h: h}
}

// VerifMinichainCacheHashes lists the hashes held by the cache (sorted), "+" marks BasicChecked entries.
func VerifMinichainCacheHashes(mem *Mempool) []string {
	m, ok := mem.cache.(*txHeapManager)
	if !ok {
		return nil
	}
	var out []string
	for _, h := range m.h {
		h.RLock()
		for k, tx := range h.txMap {
			s := k.Hex()
			if c, ok := tx.(*mempoolCachedTx); ok && c.BasicChecked {
				s += "+"
			}
			out = append(out, s)
		}
		h.RUnlock()
	}
	sort.Strings(out)
	return out
}

func verifListTxs(l *clist.CList) types.Txs {
	var out types.Txs
	for e := l.Front(); e != nil; e = e.Next() {
		out = append(out, e.Value.(*mempoolTx).tx)
	}
	return out
}

// VerifMinichainPoolView is a read-only snapshot of the pool lists.
type VerifMinichainPoolView struct {
	Good, Spec, UTXO types.Txs
	Future           map[common.Address]types.Txs // per sender, ascending nonce
	FutureCount      int                          // the counter the pool keeps (may lag the real sum)
	KeyImages        int
	Height           uint64
}

// VerifMinichainView returns the content of the pool lists. Not synchronised with concurrent AddTx: call it
// from the goroutine that drives the pool.
func VerifMinichainView(mem *Mempool) VerifMinichainPoolView {
	v := VerifMinichainPoolView{Good: verifListTxs(mem.goodTxs), Spec: verifListTxs(mem.specGoodTxs), UTXO: verifListTxs(mem.utxoTxs),
		Future: map[common.Address]types.Txs{}, FutureCount: mem.futureTxsCount, Height: mem.height}
	for a, l := range mem.futureTxs {
		for _, tx := range l.Flatten() {
			v.Future[a] = append(v.Future[a], tx)
		}
	}
	mem.kImageMtx.RLock()
	v.KeyImages = len(mem.kImageCache)
	mem.kImageMtx.RUnlock()
	return v
}
