//go:build verif

package mempool

import "time"

// Seam for the C07 check (interleavings of AddTx and CommitBlock under the cooperative scheduler). Add-only file,
// projected into the package through the build overlay; nothing here is called by repo code.

// VerifC07ParkLoopTickers sets the periods of the stats-report and eviction tickers of Mempool.loop (package
// variables, 5 s and 10 s in the repository) for mempools created AFTER the call. The loop goroutine is not owned by
// the cooperative scheduler; a tick that takes proxyMtx in the middle of an explored schedule would make executions
// irreproducible. Returns the previous values.
func VerifC07ParkLoopTickers(d time.Duration) (oldEvict, oldStats time.Duration) {
	oldEvict, oldStats = evictionInterval, statsReportInterval
	evictionInterval, statsReportInterval = d, d
	return
}
