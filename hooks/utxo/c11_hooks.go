//go:build verif

package utxo

import "reflect"

// Test seam for check C11 (/verif/harness/cmd/c11): the unexported storage record types of this package that
// are written and read with libs/ser. Add-only file, projected into the package through the build overlay;
// nothing here is called by repo code.

// VerifC11StorageTypes returns the types persisted by UtxoStore through ser.EncodeToBytes / ser.DecodeBytes.
func VerifC11StorageTypes() []reflect.Type {
	return []reflect.Type{reflect.TypeOf(tokenUtxoSeqs{})}
}
