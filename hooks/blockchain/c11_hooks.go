//go:build verif

package blockchain

// Test seam for check C11 (/verif/harness/cmd/c11): makes the reactor's unexported message decoder callable.
// Add-only file, projected into the package through the build overlay; nothing here is called by repo code.

// VerifC11DecodeMsg calls the unexported decodeMsg of this reactor.
func VerifC11DecodeMsg(bz []byte) (interface{}, error) {
	msg, err := decodeMsg(bz)
	return msg, err
}

// VerifC11MaxMsgSize is the reactor's message size limit.
const VerifC11MaxMsgSize = maxMsgSize
