//go:build verif

package blockchain

import (
	"fmt"

	"github.com/lianxiangcloud/linkchain/types"
)

// VerifC03FastSyncOnce drives the real fast-sync loop for the C03 harness (/verif/harness/cmd/c03).
//
// It places first and second into the block pool of a freshly built reactor the way AddBlock leaves them (one
// requester per height that holds the block of the peer that delivered it) and then runs the REAL poolRoutine on
// the calling goroutine. poolRoutine has no exit on the paths of interest; the caller's stubs end it by panicking
// with a sentinel value (BlockChainApp.CommitBlock = the block was accepted, P2PManager.Peers = the pair was
// rejected and the peers are being looked up for punishment). The recovered value is returned.
// Add-only file, projected into the package through the build overlay; nothing here is called by repo code.
func VerifC03FastSyncOnce(bcR *BlockchainReactor, first, second *types.Block) (stopped interface{}) {
	pool := bcR.pool
	if pool.height != first.Height || second.Height != first.Height+1 {
		panic(fmt.Sprintf("VerifC03FastSyncOnce: pool at height %d, blocks at %d/%d", pool.height, first.Height, second.Height))
	}
	pool.mtx.Lock()
	for i, b := range []*types.Block{first, second} {
		req := newBPRequester(pool, b.Height)
		req.peerID = fmt.Sprintf("c03-peer%d", i)
		req.block = b
		pool.requesters[b.Height] = req
		pool.blocks[b.Height] = b
		pool.numPending++
	}
	pool.mtx.Unlock()
	defer func() { stopped = recover() }()
	bcR.poolRoutine()
	return nil
}
