#!/bin/bash
# Run once after a fresh restore (offline): conformance of the crypto stand-in, then warm the Go build cache by
# building the harness binary of every check claimed in MANIFEST.json (other harness directories: best effort).
set -u
VERIF="$(cd "$(dirname "$0")" && pwd)"
export GOFLAGS=-mod=mod GOPROXY=off GOSUMDB=off GOTOOLCHAIN=local CGO_ENABLED=1
mkdir -p "$VERIF/.build/bin" "$VERIF/evidence" "$VERIF/replays"
python3 "$VERIF/tools/mkoverlay.py" >/dev/null || exit 1
cp /repo/go.sum "$VERIF/harness/go.sum"
rm -f "$VERIF/.build/xcrypto-conformance.FAILED"
"$VERIF/xcrypto_model/conformance.sh" > "$VERIF/.build/xcrypto-conformance.log" 2>&1 || { echo "setup: xcrypto stand-in conformance FAILED (see .build/xcrypto-conformance.log)" >&2; touch "$VERIF/.build/xcrypto-conformance.FAILED"; }
cd "$VERIF/harness" || exit 1
CLAIMED=$(python3 -c "import json;print(' '.join(c['property_id'].lower() for c in json.load(open('$VERIF/MANIFEST.json'))['checks']))")
rc=0
for d in cmd/*/; do
  id=$(basename "$d")
  [ -x "$d/prebuild.sh" ] && "$d/prebuild.sh"
  if go build -tags verif -overlay "$VERIF/.build/overlay.json" -o "$VERIF/.build/bin/$id" "./cmd/$id" 2> "$VERIF/.build/$id.setup.log"; then :; else
    case " $CLAIMED " in *" $id "*) echo "setup: build of claimed check $id failed" >&2; cat "$VERIF/.build/$id.setup.log" >&2; rc=1;; *) echo "setup: (unclaimed) $id does not build yet";; esac
  fi
done
exit $rc
