#!/bin/bash
# Run once after a fresh restore (offline): warm the Go build cache by building every harness binary.
set -u
VERIF="$(cd "$(dirname "$0")" && pwd)"
export GOFLAGS=-mod=mod GOPROXY=off GOSUMDB=off GOTOOLCHAIN=local CGO_ENABLED=1
mkdir -p "$VERIF/.build/bin" "$VERIF/evidence" "$VERIF/replays"
python3 "$VERIF/tools/mkoverlay.py" >/dev/null || exit 1
cp /repo/go.sum "$VERIF/harness/go.sum"
"$VERIF/xcrypto_model/conformance.sh" > "$VERIF/.build/xcrypto-conformance.log" 2>&1 || { echo "setup: xcrypto stand-in conformance FAILED (see .build/xcrypto-conformance.log)" >&2; touch "$VERIF/.build/xcrypto-conformance.FAILED"; }
cd "$VERIF/harness" || exit 1
rc=0
for d in cmd/*/; do
  id=$(basename "$d")
  [ -x "$d/prebuild.sh" ] && "$d/prebuild.sh"
  go build -tags verif -overlay "$VERIF/.build/overlay.json" -o "$VERIF/.build/bin/$id" "./cmd/$id" || { echo "setup: build of $id failed" >&2; rc=1; }
done
exit $rc
